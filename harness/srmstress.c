/*
 * srmstress - C23: drives the REAL system resource manager (EbSystemResourceManager.c + EbThreads.c, white-box link)
 * through thousands of short multi-threaded histories and checks each one at the client boundary.
 *
 *   srmstress run <seed> <first> <count> <outprefix> [key=value ...]
 *      class=std|nbmulti|pool   std    : producers get_empty->fill->post_full, consumers get_full->use->release;
 *                                        non-blocking gets only on single-consumer resources (the way the library
 *                                        itself uses them: output stream / recon queues)
 *                               nbmulti: non-blocking gets mixed in on resources with 2..4 consumers
 *                               pool   : no full queue (picture-buffer pools): get_empty/inc_live_count/release
 *      trace=0|1                write the H3 trace of every history into <outprefix>.trace (seq rebased per history)
 *      sched=0|1                H1 schedule perturbation (per-history seed/probability/delay)
 *      fork=1|0                 one forked child per history (default; isolates crashes and parked producers)
 *      stuck_ms=N               no-progress watchdog inside a history (default 20000)
 *
 * One JSON line per history goes to <outprefix>.results.  A history is: fresh SRM (1..6 objects, 1..4 producer
 * fifos, 0..4 consumer fifos), one thread per fifo plus 0..2 "releaser" threads that hold extra references;
 * every posted object carries a unique ticket written by the producer and verified by the consumer; extra
 * references (inc_live_count by producer or consumer, release_disable/enable) are released by several threads;
 * svt_shutdown_process is called when the pipeline is idle, or after a random number of deliveries.
 *
 * Client-side oracle (independent of the H3 trace): exclusive hand-out, payload integrity, exactly-once delivery,
 * per-consumer order consistent with the real-time order of the posts, shutdown makes every consumer return,
 * white-box conservation walk of the real queues at the end (pool + full side == all objects, pooled objects
 * carry EB_ObjectWrapperReleasedValue, no duplicates).  Lost wake-ups are detected from the real state when the
 * history makes no progress (object queued/assigned while its consumer sleeps on a zero semaphore), not from time.
 *
 * All harness bookkeeping uses relaxed atomics only, so that it adds no happens-before edge that could hide a
 * missing one inside the SRM from ThreadSanitizer.
 */
#include <errno.h>
#include <pthread.h>
#include <sched.h>
#include <semaphore.h>
#include <signal.h>
#include <stdarg.h>
#include <sys/wait.h>
#include <fcntl.h>

#include "vcommon.h"
#include "EbSystemResourceManager.h"
#include "EbThreads.h"
#include "EbVerifHooks.h"

#define MAXOBJ 6
#define MAXTHR 4
#define MAXREL 2
#define MAXQUOTA 8
#define MAXTICKETS (MAXTHR * MAXQUOTA)
#define MAXEV 8192
#define RLX __ATOMIC_RELAXED

enum { CLS_STD = 0, CLS_NBMULTI, CLS_POOL };
static const char *const cls_names[] = {"std", "nbmulti", "pool"};

/* ---------------------------------------------------------------- payload object */
typedef struct Payload {
    EbDctor  dctor;
    uint64_t ticket;
    uint64_t producer;
    uint64_t body[5];
    uint64_t sum;
} Payload;

static EbErrorType payload_ctor(Payload *p, EbPtr init) {
    (void)init;
    p->dctor = NULL;
    return EB_ErrorNone;
}
static EbErrorType payload_creator(EbPtr *object_dbl_ptr, EbPtr init) {
    Payload *obj;
    *object_dbl_ptr = NULL;
    EB_NEW(obj, payload_ctor, init);
    *object_dbl_ptr = obj;
    return EB_ErrorNone;
}

/* ---------------------------------------------------------------- plan */
typedef struct {
    int      h, cls, nobj, nprod, ncons, nrel, T;
    int      quota[MAXTHR];
    int      nb_permille; /* probability that a consumer get is the non-blocking variant */
    int      shutdown_after; /* deliveries after which shutdown is called; T => wait for an idle pipeline */
    int      sched_permille, sched_us;
    int      hold_permille; /* consumer yields between get and release */
    uint64_t seed;
} Plan;

typedef struct {
    int k; /* live_count increment (0..3) */
    int inc_by_consumer;
    int disable; /* release_disable before the hand-off, enable before the last release */
    int delegate; /* bitmask: release i is performed by a releaser thread */
    int R; /* number of svt_release_object calls needed to return the object */
} TPlan;

static Plan g_plan;

static TPlan ticket_plan(uint64_t ticket) {
    VRng r;
    v_rng_seed(&r, g_plan.seed * 7919u + ticket * 104729u + 17);
    TPlan        t;
    static const int ks[8] = {0, 0, 0, 1, 1, 2, 2, 3};
    t.k               = ks[v_rng_below(&r, 8)];
    t.inc_by_consumer = g_plan.cls == CLS_POOL ? 0 : (int)v_rng_below(&r, 2);
    t.disable         = v_rng_below(&r, 8) == 0;
    t.R               = (t.k > 1 ? t.k : 1) + (t.disable ? 1 : 0);
    t.delegate        = (g_plan.nrel && !t.disable) ? (int)v_rng_below(&r, 1u << t.R) : 0;
    return t;
}

/* ---------------------------------------------------------------- shared state of one history */
static EbSystemResource *g_res;
static EbFifo *          g_pf[MAXTHR], *g_cf[MAXTHR];

enum {
    OP_GE_CALL = 1, OP_GE_RET, OP_POST_CALL, OP_POST_RET, OP_GF_CALL, OP_GF_RET, OP_GF_SHUT, OP_REL_CALL, OP_REL_RET,
    OP_INC, OP_DIS, OP_EN, OP_SHUT_CALL, OP_SHUT_RET, OP_GF_EMPTY
};
static const char *const op_names[] = {"?", "get_empty.call", "get_empty.ret", "post_full.call", "post_full.ret",
                                       "get_full.call", "get_full.ret", "get_full.shutdown", "release.call",
                                       "release.ret", "inc_live", "release_disable", "release_enable",
                                       "shutdown.call", "shutdown.ret", "get_full.empty"};
/* event = op:8 | thread:8 | wrapper:8 | aux:8 | ticket:32 ; index in the log = client-side sequence number */
static uint64_t g_ev[MAXEV];
static uint32_t g_nev;
static uint32_t g_progress; /* bumped by every client event, also when the log is full */

static inline uint32_t ev(int op, int thr, int w, int aux, uint32_t ticket) {
    uint32_t i = __atomic_fetch_add(&g_nev, 1, RLX);
    __atomic_fetch_add(&g_progress, 1, RLX);
    if (i < MAXEV)
        __atomic_store_n(&g_ev[i],
                         ((uint64_t)(op & 255) << 56) | ((uint64_t)(thr & 255) << 48) | ((uint64_t)(w & 255) << 40) |
                             ((uint64_t)(aux & 255) << 32) | ticket,
                         RLX);
    return i;
}

/* thread ids in the log: producers 0.., consumers 16.., releasers 32.., main 64 */
#define THR_P(p) (p)
#define THR_C(c) (16 + (c))
#define THR_R(r) (32 + (r))
#define THR_MAIN 64

static int      g_held[MAXOBJ]; /* 0 pool/unknown, 1 held by a producer, 2 posted, 3 delivered */
static int      g_remaining[MAXOBJ]; /* release calls not yet announced for the current hand-out */
static int      g_ever_out[MAXOBJ]; /* handed out at least once (fresh wrappers carry live_count 0, not the released mark) */
static int      g_in_call[80]; /* per logical thread: 0, OP_GE_CALL, OP_GF_CALL(blocking) */
static uint32_t g_deliveries, g_posts, g_releases, g_releases_needed, g_nb_empty, g_nb_calls, g_blocking_calls;
static int      g_prod_done[MAXTHR], g_cons_done[MAXTHR];
static int      g_delivered_flag[MAXTICKETS + 1];
static int      g_ticket_consumer[MAXTICKETS + 1];
static uint32_t g_cons_seq[MAXTHR][MAXTICKETS];
static int      g_cons_n[MAXTHR];

/* violations */
#define MAXVIOL 8
static char            g_viol[MAXVIOL][2][200];
static int             g_nviol;
static pthread_mutex_t g_viol_m = PTHREAD_MUTEX_INITIALIZER;

static void viol(const char *key, const char *fmt, ...) {
    va_list ap;
    pthread_mutex_lock(&g_viol_m);
    if (g_nviol < MAXVIOL) {
        snprintf(g_viol[g_nviol][0], sizeof(g_viol[0][0]), "%s", key);
        va_start(ap, fmt);
        vsnprintf(g_viol[g_nviol][1], sizeof(g_viol[0][1]), fmt, ap);
        va_end(ap);
        for (char *c = g_viol[g_nviol][1]; *c; c++)
            if (*c == '"' || *c == '\\' || *c == '\n')
                *c = ' ';
        g_nviol++;
    }
    pthread_mutex_unlock(&g_viol_m);
}

static int windex(const EbObjectWrapper *w) {
    for (int i = 0; i < g_plan.nobj; i++)
        if (g_res->wrapper_ptr_pool[i] == w)
            return i;
    return -1;
}

static int ticket_slot(uint64_t ticket) { /* ticket = producer*MAXQUOTA + i + 1 */
    return (ticket >= 1 && ticket <= MAXTICKETS) ? (int)ticket : 0;
}

/* ---------------------------------------------------------------- delegated releases (harness-side queue) */
static pthread_mutex_t  g_rq_m = PTHREAD_MUTEX_INITIALIZER;
static pthread_cond_t   g_rq_c = PTHREAD_COND_INITIALIZER;
static EbObjectWrapper *g_rq[MAXTICKETS * 4];
static int              g_rq_head, g_rq_tail, g_rq_stop;

static void rq_push(EbObjectWrapper *w) {
    pthread_mutex_lock(&g_rq_m);
    g_rq[g_rq_tail++ % (MAXTICKETS * 4)] = w;
    pthread_cond_signal(&g_rq_c);
    pthread_mutex_unlock(&g_rq_m);
}

static void do_release(EbObjectWrapper *w, int wi, int thr) {
    /* announce before the call: once every needed release has been announced the object may legitimately be
     * handed out again at any moment */
    int r = __atomic_fetch_sub(&g_remaining[wi], 1, RLX);
    if (r == 1)
        __atomic_store_n(&g_held[wi], 0, RLX);
    else if (r < 1)
        viol("client|over-release", "harness bug: more releases than planned for object %d", wi);
    ev(OP_REL_CALL, thr, wi, r, 0);
    svt_release_object(w);
    ev(OP_REL_RET, thr, wi, r, 0);
    __atomic_fetch_add(&g_releases, 1, RLX);
}

static void *releaser_thread(void *arg) {
    int r = (int)(intptr_t)arg;
    for (;;) {
        pthread_mutex_lock(&g_rq_m);
        while (g_rq_head == g_rq_tail && !g_rq_stop) pthread_cond_wait(&g_rq_c, &g_rq_m);
        if (g_rq_head == g_rq_tail) {
            pthread_mutex_unlock(&g_rq_m);
            return NULL;
        }
        int              at = g_rq_head++;
        EbObjectWrapper *w  = g_rq[at % (MAXTICKETS * 4)];
        pthread_mutex_unlock(&g_rq_m);
        int wi = windex(w);
        if ((v_mix((uint64_t)(uintptr_t)w + (uint64_t)at) & 3) == 0)
            sched_yield();
        do_release(w, wi, THR_R(r));
    }
}

/* perform the R releases of one hand-out (the caller holds the object) */
static void release_all(EbObjectWrapper *w, int wi, TPlan tp, int thr) {
    for (int i = 0; i < tp.R; i++) {
        if (tp.disable && i == tp.R - 1) {
            /* the previous releases must have left it out of the pool */
            if (w->live_count == EB_ObjectWrapperReleasedValue)
                viol("client|release-while-disabled", "object %d went back to the pool while release was disabled", wi);
            ev(OP_EN, thr, wi, 0, 0);
            svt_object_release_enable(w);
        }
        if (tp.delegate & (1 << i))
            rq_push(w);
        else
            do_release(w, wi, thr);
    }
}

/* ---------------------------------------------------------------- producers */
static void fill_payload(Payload *pl, uint64_t ticket, int p) {
    pl->ticket   = ticket;
    pl->producer = (uint64_t)p;
    uint64_t s   = ticket * 31 + (uint64_t)p;
    for (int i = 0; i < 5; i++) {
        pl->body[i] = v_mix(ticket * 8 + (uint64_t)i + g_plan.seed);
        s += pl->body[i];
    }
    pl->sum = s;
}
static int check_payload(const Payload *pl) {
    uint64_t s = pl->ticket * 31 + pl->producer;
    for (int i = 0; i < 5; i++) {
        if (pl->body[i] != v_mix(pl->ticket * 8 + (uint64_t)i + g_plan.seed))
            return 0;
        s += pl->body[i];
    }
    return s == pl->sum;
}

static void *producer_thread(void *arg) {
    int  p = (int)(intptr_t)arg;
    VRng r;
    v_rng_seed(&r, g_plan.seed * 131 + (uint64_t)p);
    for (int i = 0; i < g_plan.quota[p]; i++) {
        EbObjectWrapper *w      = NULL;
        uint64_t         ticket = (uint64_t)p * MAXQUOTA + (uint64_t)i + 1;
        __atomic_store_n(&g_in_call[THR_P(p)], OP_GE_CALL, RLX);
        ev(OP_GE_CALL, THR_P(p), 255, 0, (uint32_t)ticket);
        svt_get_empty_object(g_pf[p], &w);
        int wi = w ? windex(w) : -1;
        ev(OP_GE_RET, THR_P(p), wi, 0, (uint32_t)ticket);
        __atomic_store_n(&g_in_call[THR_P(p)], 0, RLX);
        if (wi < 0) {
            viol("client|unknown-object", "get_empty returned %p which is not one of the %d objects", (void *)w, g_plan.nobj);
            break;
        }
        __atomic_store_n(&g_ever_out[wi], 1, RLX);
        int prev = __atomic_exchange_n(&g_held[wi], 1, RLX);
        if (prev != 0)
            viol("client|double-handout", "get_empty handed out object %d while it is %s (ticket %u)", wi,
                 prev == 1 ? "held by a producer" : prev == 2 ? "posted" : "held by a consumer", (unsigned)ticket);
        if (w->live_count != 0 || w->release_enable != EB_TRUE)
            viol("client|fresh-object-state", "get_empty returned object %d with live_count %u release_enable %d", wi,
                 w->live_count, (int)w->release_enable);
        TPlan tp = ticket_plan(ticket);
        fill_payload((Payload *)w->object_ptr, ticket, p);
        __atomic_store_n(&g_remaining[wi], tp.R, RLX);
        if (tp.disable) {
            ev(OP_DIS, THR_P(p), wi, 0, (uint32_t)ticket);
            svt_object_release_disable(w);
        }
        if (tp.k && !tp.inc_by_consumer) {
            ev(OP_INC, THR_P(p), wi, tp.k, (uint32_t)ticket);
            svt_object_inc_live_count(w, (uint32_t)tp.k);
        }
        if (v_rng_below(&r, 4) == 0)
            sched_yield();
        if (g_plan.cls == CLS_POOL) {
            /* pool resource: no full queue; the references are dropped by this thread and the releasers */
            __atomic_store_n(&g_held[wi], 3, RLX);
            __atomic_fetch_add(&g_posts, 1, RLX);
            __atomic_fetch_add(&g_releases_needed, (uint32_t)tp.R, RLX);
            __atomic_fetch_add(&g_deliveries, 1, RLX);
            if (!check_payload((Payload *)w->object_ptr))
                viol("client|payload", "pool object %d changed while held", wi);
            release_all(w, wi, tp, THR_P(p));
            continue;
        }
        __atomic_store_n(&g_held[wi], 2, RLX);
        ev(OP_POST_CALL, THR_P(p), wi, 0, (uint32_t)ticket);
        svt_post_full_object(w);
        ev(OP_POST_RET, THR_P(p), wi, 0, (uint32_t)ticket);
        __atomic_fetch_add(&g_posts, 1, RLX);
    }
    __atomic_store_n(&g_prod_done[p], 1, RLX);
    return NULL;
}

/* ---------------------------------------------------------------- consumers */
static void *consumer_thread(void *arg) {
    int  c = (int)(intptr_t)arg;
    VRng r;
    v_rng_seed(&r, g_plan.seed * 257 + (uint64_t)c + 1000);
    for (;;) {
        EbObjectWrapper *w  = NULL;
        int              nb = g_plan.nb_permille && (int)v_rng_below(&r, 1000) < g_plan.nb_permille;
        EbErrorType      err;
        if (nb) {
            __atomic_fetch_add(&g_nb_calls, 1, RLX);
            err = svt_get_full_object_non_blocking(g_cf[c], &w);
            if (!w) {
                /* empty (or shut down: this variant reports neither); not a progress event */
                __atomic_fetch_add(&g_nb_empty, 1, RLX);
                if (err != EB_ErrorNone)
                    viol("client|nonblocking-return-code", "non-blocking get returned %x", (unsigned)err);
                sched_yield();
                continue;
            }
        } else {
            __atomic_fetch_add(&g_blocking_calls, 1, RLX);
            __atomic_store_n(&g_in_call[THR_C(c)], OP_GF_CALL, RLX);
            ev(OP_GF_CALL, THR_C(c), 255, 1, 0);
            err = svt_get_full_object(g_cf[c], &w);
            __atomic_store_n(&g_in_call[THR_C(c)], 0, RLX);
            if (!w) {
                ev(OP_GF_SHUT, THR_C(c), 255, 1, (uint32_t)err);
                if (err != EB_NoErrorFifoShutdown)
                    viol("client|null-delivery", "blocking get_full returned no object and code %x", (unsigned)err);
                break;
            }
        }
        int      wi     = windex(w);
        Payload *pl     = wi >= 0 ? (Payload *)w->object_ptr : NULL;
        uint64_t ticket = pl ? pl->ticket : 0;
        ev(OP_GF_RET, THR_C(c), wi, nb ? 0 : 1, (uint32_t)ticket);
        if (wi < 0) {
            viol("client|unknown-object", "get_full returned %p which is not one of the %d objects", (void *)w, g_plan.nobj);
            break;
        }
        int prev = __atomic_exchange_n(&g_held[wi], 3, RLX);
        if (prev != 2)
            viol("client|double-delivery", "get_full delivered object %d while it is %s (ticket %u)", wi,
                 prev == 0 ? "in the pool" : prev == 1 ? "held by a producer" : "held by another consumer", (unsigned)ticket);
        int slot = ticket_slot(ticket);
        if (!slot || !check_payload(pl)) {
            viol("client|payload", "object %d delivered with a damaged payload (ticket field %llu)", wi,
                 (unsigned long long)ticket);
        } else {
            if (__atomic_exchange_n(&g_delivered_flag[slot], 1, RLX))
                viol("client|duplicate-delivery", "ticket %u delivered twice", (unsigned)ticket);
            g_ticket_consumer[slot]         = c;
            g_cons_seq[c][g_cons_n[c]++ % MAXTICKETS] = (uint32_t)ticket;
        }
        TPlan tp = ticket_plan(ticket);
        /* counted before the delivery so that "all delivered and all released" is never true too early */
        __atomic_fetch_add(&g_releases_needed, (uint32_t)tp.R, RLX);
        __atomic_fetch_add(&g_deliveries, 1, RLX);
        if (tp.k && tp.inc_by_consumer) {
            ev(OP_INC, THR_C(c), wi, tp.k, (uint32_t)ticket);
            svt_object_inc_live_count(w, (uint32_t)tp.k);
        }
        if (g_plan.hold_permille && (int)v_rng_below(&r, 1000) < g_plan.hold_permille)
            sched_yield();
        if (!check_payload(pl))
            viol("client|payload", "object %d changed while held by consumer %d", wi, c);
        release_all(w, wi, tp, THR_C(c));
    }
    __atomic_store_n(&g_cons_done[c], 1, RLX);
    return NULL;
}

/* ---------------------------------------------------------------- white-box inspection */
typedef struct {
    int  n; /* entries */
    int  idx[MAXOBJ + 2];
    int  bad; /* unknown pointer, duplicate or broken chain */
    int  sem; /* semaphore value (fifos) */
    int  locked; /* could not take the lock */
} Bag;

static int try_lock(EbHandle m) {
    for (int i = 0; i < 2000; i++) {
        if (pthread_mutex_trylock((pthread_mutex_t *)m) == 0)
            return 1;
        usleep(500);
    }
    return 0;
}

static void bag_add(Bag *b, const EbObjectWrapper *w) {
    int wi = windex(w);
    if (wi < 0 || b->n > MAXOBJ) {
        b->bad = 1;
        return;
    }
    b->idx[b->n++] = wi;
}

static void walk_cbuf(EbMuxingQueue *q, Bag *b, int *nproc) {
    memset(b, 0, sizeof(*b));
    *nproc = 0;
    if (!q)
        return;
    if (!try_lock(q->lockout_mutex)) {
        b->locked = 1;
        return;
    }
    EbCircularBuffer *ob = q->object_queue;
    for (uint32_t i = 0; i < ob->buffer_total_count; i++)
        if (ob->array_ptr[i])
            bag_add(b, (EbObjectWrapper *)ob->array_ptr[i]);
    EbCircularBuffer *pb = q->process_queue;
    for (uint32_t i = 0; i < pb->buffer_total_count; i++)
        if (pb->array_ptr[i])
            (*nproc)++;
    pthread_mutex_unlock((pthread_mutex_t *)q->lockout_mutex);
}

static void walk_fifo(EbFifo *f, Bag *b) {
    memset(b, 0, sizeof(*b));
    if (!try_lock(f->lockout_mutex)) {
        b->locked = 1;
        return;
    }
    int steps = 0;
    for (EbObjectWrapper *w = f->first_ptr; w && steps <= MAXOBJ + 1; w = w->next_ptr, steps++) bag_add(b, w);
    if (steps > MAXOBJ)
        b->bad = 1;
    sem_getvalue((sem_t *)f->counting_semaphore, &b->sem);
    pthread_mutex_unlock((pthread_mutex_t *)f->lockout_mutex);
}

/* state-based diagnosis when nothing moves: returns 1 if a defect in scope of the property is proven */
static int diagnose_stuck(char *out, size_t outsz, int after_shutdown) {
    Bag    fullq, emptyq, fb;
    int    fproc = 0, eproc = 0, proven = 0;
    size_t o = 0;
    walk_cbuf(g_res->full_queue, &fullq, &fproc);
    walk_cbuf(g_res->empty_queue, &emptyq, &eproc);
    o += (size_t)snprintf(out + o, outsz - o, "full queue: %d object(s), %d registered process(es)%s; empty queue: %d object(s), "
                                              "%d registered; ",
                          fullq.n, fproc, fullq.locked ? " (LOCKED)" : "", emptyq.n, eproc);
    if (fullq.n && fproc) {
        viol("client|lost-wakeup|missed-assignation",
             "no progress: the full queue holds %d object(s) and %d registered consumer(s) at rest", fullq.n, fproc);
        proven = 1;
    }
    if (emptyq.n && eproc) {
        viol("client|lost-wakeup-producer|missed-assignation",
             "no progress: the empty queue holds %d object(s) and %d registered producer(s) at rest", emptyq.n, eproc);
        proven = 1;
    }
    for (int c = 0; c < g_plan.ncons; c++) {
        int in = __atomic_load_n(&g_in_call[THR_C(c)], RLX);
        walk_fifo(g_cf[c], &fb);
        o += (size_t)snprintf(out + o, outsz - o, "consumer %d: %s, fifo %d item(s), sem %d, quit %d; ", c,
                              __atomic_load_n(&g_cons_done[c], RLX) ? "returned" : in ? "in get_full" : "running", fb.n,
                              fb.sem, (int)g_cf[c]->quit_signal);
        if (in && !fb.locked && fb.sem == 0) {
            if (after_shutdown && g_cf[c]->quit_signal) {
                viol("client|shutdown-stuck", "consumer %d sleeps in get_full after svt_shutdown_process (semaphore 0)", c);
                proven = 1;
            } else if (fb.n) {
                viol("client|lost-wakeup|semaphore", "consumer %d sleeps in get_full with %d object(s) in its fifo and "
                                                     "semaphore 0", c, fb.n);
                proven = 1;
            } else if (fullq.n && !fproc && !after_shutdown) {
                viol("client|lost-wakeup|registration-lost",
                     "consumer %d sleeps in get_full, %d object(s) wait in the full queue, no process is registered", c, fullq.n);
                proven = 1;
            }
        }
    }
    for (int p = 0; p < g_plan.nprod; p++) {
        int in = __atomic_load_n(&g_in_call[THR_P(p)], RLX);
        walk_fifo(g_pf[p], &fb);
        o += (size_t)snprintf(out + o, outsz - o, "producer %d: %s, fifo %d, sem %d; ", p,
                              __atomic_load_n(&g_prod_done[p], RLX) ? "done" : in ? "in get_empty" : "running", fb.n, fb.sem);
        if (in && !fb.locked && fb.sem == 0 && fb.n) {
            viol("client|lost-wakeup-producer|semaphore", "producer %d sleeps in get_empty with %d object(s) in its fifo", p, fb.n);
            proven = 1;
        }
    }
    return proven;
}

/* conservation on the real queues; every thread is finished or parked in get_empty */
static void final_walk(int after_shutdown, int blocked_producers) {
    int count[MAXOBJ] = {0}, where_pool[MAXOBJ] = {0};
    Bag b;
    int np;
    int bad = 0, pool = 0, fullside = 0;
    walk_cbuf(g_res->empty_queue, &b, &np);
    bad |= b.bad | b.locked;
    for (int i = 0; i < b.n; i++) count[b.idx[i]]++, where_pool[b.idx[i]] = 1, pool++;
    for (int p = 0; p < g_plan.nprod; p++) {
        walk_fifo(g_pf[p], &b);
        bad |= b.bad | b.locked;
        for (int i = 0; i < b.n; i++) count[b.idx[i]]++, where_pool[b.idx[i]] = 1, pool++;
        if (!b.locked && b.sem != b.n)
            viol("client|semaphore-count", "producer fifo %d holds %d object(s) but its semaphore counts %d", p, b.n, b.sem);
    }
    if (g_res->full_queue) {
        walk_cbuf(g_res->full_queue, &b, &np);
        bad |= b.bad | b.locked;
        for (int i = 0; i < b.n; i++) count[b.idx[i]]++, fullside++;
        for (int c = 0; c < g_plan.ncons; c++) {
            walk_fifo(g_cf[c], &b);
            bad |= b.bad | b.locked;
            for (int i = 0; i < b.n; i++) count[b.idx[i]]++, fullside++;
        }
    }
    if (bad)
        viol("client|conservation|corrupt-queue", "a queue holds an unknown pointer, a cycle or could not be inspected");
    for (int i = 0; i < g_plan.nobj; i++) {
        if (count[i] != 1)
            viol("client|conservation", "object %d is present %d times in the queues at the end (pool %d, full side %d of %d)",
                 i, count[i], pool, fullside, g_plan.nobj);
        else if (where_pool[i] && g_res->wrapper_ptr_pool[i]->live_count !=
                     (__atomic_load_n(&g_ever_out[i], RLX) ? EB_ObjectWrapperReleasedValue : 0u))
            viol("client|conservation|live-count", "object %d is in the pool with live_count %u", i,
                 g_res->wrapper_ptr_pool[i]->live_count);
        else if (where_pool[i] && __atomic_load_n(&g_held[i], RLX) != 0)
            viol("client|early-return", "object %d is in the pool while the client still holds a reference", i);
    }
    uint32_t undelivered = __atomic_load_n(&g_posts, RLX) - __atomic_load_n(&g_deliveries, RLX);
    if ((int)undelivered != fullside)
        viol("client|conservation|undelivered", "%u posted ticket(s) were not delivered but the full side holds %d object(s)",
             undelivered, fullside);
    if (undelivered && !after_shutdown)
        viol("client|lost-object", "%u ticket(s) never delivered without shutdown", undelivered);
    (void)blocked_producers;
}

/* exactly-once and order on the client log */
static void analyse_log(int idle_shutdown) {
    uint32_t n = __atomic_load_n(&g_nev, RLX);
    if (n > MAXEV)
        n = MAXEV;
    uint32_t post_call[MAXTICKETS + 1], post_ret[MAXTICKETS + 1];
    memset(post_call, 0xff, sizeof(post_call));
    memset(post_ret, 0xff, sizeof(post_ret));
    for (uint32_t i = 0; i < n; i++) {
        uint64_t e  = __atomic_load_n(&g_ev[i], RLX); /* parked producers are not joined */
        int      op = (int)(e >> 56);
        uint32_t t  = (uint32_t)e;
        if (op == OP_POST_CALL && t <= MAXTICKETS)
            post_call[t] = i;
        else if (op == OP_POST_RET && t <= MAXTICKETS)
            post_ret[t] = i;
    }
    for (int c = 0; c < g_plan.ncons; c++) {
        for (int i = 1; i < g_cons_n[c] && i < MAXTICKETS; i++) {
            uint32_t ta = g_cons_seq[c][i - 1], tb = g_cons_seq[c][i];
            /* tb was completely posted before the post of ta began, yet ta came out first */
            if (post_ret[tb] != 0xffffffffu && post_call[ta] != 0xffffffffu && post_ret[tb] < post_call[ta])
                viol("client|fifo-order", "consumer %d received ticket %u before ticket %u although %u was posted first", c, ta,
                     tb, tb);
            /* same producer: strictly increasing */
            if ((ta - 1) / MAXQUOTA == (tb - 1) / MAXQUOTA && tb < ta)
                viol("client|fifo-order", "consumer %d received tickets %u then %u of the same producer", c, ta, tb);
        }
    }
    if (idle_shutdown && g_plan.cls != CLS_POOL) {
        for (int p = 0; p < g_plan.nprod; p++)
            for (int i = 0; i < g_plan.quota[p]; i++)
                if (!g_delivered_flag[p * MAXQUOTA + i + 1])
                    viol("client|lost-object", "ticket %d was posted and never delivered", p * MAXQUOTA + i + 1);
    }
}

static void dump_log(const char *path) {
    FILE *f = fopen(path, "w");
    if (!f)
        return;
    uint32_t n = __atomic_load_n(&g_nev, RLX);
    if (n > MAXEV)
        n = MAXEV;
    fprintf(f, "# history %d class %s objects %d producers %d consumers %d releasers %d shutdown_after %d of %d\n", g_plan.h,
            cls_names[g_plan.cls], g_plan.nobj, g_plan.nprod, g_plan.ncons, g_plan.nrel, g_plan.shutdown_after, g_plan.T);
    for (uint32_t i = 0; i < n; i++) {
        uint64_t e   = __atomic_load_n(&g_ev[i], RLX);
        int      op  = (int)(e >> 56), thr = (int)((e >> 48) & 255), w = (int)((e >> 40) & 255), aux = (int)((e >> 32) & 255);
        fprintf(f, "%5u %s%d %-18s obj=%d aux=%d ticket=%u\n", i,
                thr >= 64 ? "main" : thr >= 32 ? "rel" : thr >= 16 ? "cons" : "prod", thr & 15,
                op < 16 ? op_names[op] : "?", w == 255 ? -1 : w, aux, (uint32_t)e);
    }
    fclose(f);
}

/* ---------------------------------------------------------------- one history */
static uint64_t g_stuck_us = 20000000;

/* wait until cond() or no client event for g_stuck_us; returns 1 when cond holds */
static int wait_progress(int (*cond)(void)) {
    uint32_t last = __atomic_load_n(&g_progress, RLX);
    uint64_t t0   = v_now_us();
    for (int spin = 0;; spin++) {
        if (cond())
            return 1;
        uint32_t cur = __atomic_load_n(&g_progress, RLX);
        if (cur != last) {
            last = cur;
            t0   = v_now_us();
        } else if (v_now_us() - t0 > g_stuck_us)
            return 0;
        if (spin < 50)
            sched_yield();
        else
            usleep(spin < 2000 ? 50 : 1000);
    }
}

static int cond_shutdown_point(void) {
    if (g_plan.shutdown_after >= g_plan.T) {
        /* idle pipeline: everything produced, delivered and released */
        for (int p = 0; p < g_plan.nprod; p++)
            if (!__atomic_load_n(&g_prod_done[p], RLX))
                return 0;
        return __atomic_load_n(&g_deliveries, RLX) >= (uint32_t)g_plan.T &&
            __atomic_load_n(&g_releases, RLX) >= __atomic_load_n(&g_releases_needed, RLX);
    }
    return __atomic_load_n(&g_deliveries, RLX) >= (uint32_t)g_plan.shutdown_after;
}
static int cond_consumers_done(void) {
    for (int c = 0; c < g_plan.ncons; c++)
        if (!__atomic_load_n(&g_cons_done[c], RLX))
            return 0;
    return 1;
}
static int g_parked;
/* every producer is finished, or parked for good in get_empty.  Sound state predicate: consumers and releasers
 * are gone, so objects on the full side stay there; when ALL objects are there no producer can hold or get one. */
static int cond_producers_settled(void) {
    int open_producers = 0;
    for (int p = 0; p < g_plan.nprod; p++)
        if (!__atomic_load_n(&g_prod_done[p], RLX))
            open_producers++;
    if (!open_producers) {
        g_parked = 0;
        return 1;
    }
    if (!g_res->full_queue)
        return 0;
    Bag b;
    int np, fullside = 0;
    walk_cbuf(g_res->full_queue, &b, &np);
    if (b.locked)
        return 0;
    fullside += b.n;
    for (int c = 0; c < g_plan.ncons; c++) {
        walk_fifo(g_cf[c], &b);
        if (b.locked)
            return 0;
        fullside += b.n;
    }
    if (fullside < g_plan.nobj)
        return 0;
    for (int p = 0; p < g_plan.nprod; p++)
        if (!__atomic_load_n(&g_prod_done[p], RLX) && __atomic_load_n(&g_in_call[THR_P(p)], RLX) != OP_GE_CALL)
            return 0; /* between post_full and the next get_empty */
    g_parked = open_producers;
    return 1;
}

static void make_plan(uint64_t seed, int h, int cls, int sched) {
    VRng r;
    memset(&g_plan, 0, sizeof(g_plan));
    v_rng_seed(&r, seed * 1000003ull + (uint64_t)h * 7ull + (uint64_t)cls);
    g_plan.h     = h;
    g_plan.cls   = cls;
    g_plan.seed  = v_rng_next(&r);
    g_plan.nobj  = 1 + (int)v_rng_below(&r, MAXOBJ);
    g_plan.nprod = 1 + (int)v_rng_below(&r, MAXTHR);
    g_plan.ncons = cls == CLS_POOL ? 0 : cls == CLS_NBMULTI ? 2 + (int)v_rng_below(&r, MAXTHR - 1) : 1 + (int)v_rng_below(&r, MAXTHR);
    g_plan.nrel  = (int)v_rng_below(&r, MAXREL + 1);
    if (cls == CLS_POOL && g_plan.nrel == 0)
        g_plan.nrel = 1;
    g_plan.T = 0;
    int maxq = 1 + (int)v_rng_below(&r, MAXQUOTA);
    for (int p = 0; p < g_plan.nprod; p++) {
        g_plan.quota[p] = 1 + (int)v_rng_below(&r, (uint32_t)maxq);
        g_plan.T += g_plan.quota[p];
    }
    static const int nbp[4] = {0, 200, 500, 900};
    if (cls == CLS_NBMULTI)
        g_plan.nb_permille = nbp[1 + v_rng_below(&r, 3)];
    else if (cls == CLS_STD && g_plan.ncons == 1)
        g_plan.nb_permille = nbp[v_rng_below(&r, 4)];
    g_plan.shutdown_after = (cls != CLS_POOL && v_rng_below(&r, 10) < 4) ? (int)v_rng_below(&r, (uint32_t)g_plan.T + 1) : g_plan.T;
    static const int sp[5] = {0, 30, 100, 300, 600};
    static const int su[4] = {0, 0, 20, 120};
    if (sched) {
        g_plan.sched_permille = sp[v_rng_below(&r, 5)];
        g_plan.sched_us       = su[v_rng_below(&r, 4)];
    }
    g_plan.hold_permille = (int)v_rng_below(&r, 3) * 300;
}

static EbErrorType make_resource(void) {
    EB_NEW(g_res, svt_system_resource_ctor, (uint32_t)g_plan.nobj, (uint32_t)g_plan.nprod, (uint32_t)g_plan.ncons,
           payload_creator, NULL, NULL);
    return EB_ErrorNone;
}

/* runs one history in this process; writes the JSON result line to fd */
static int run_history(int fd, const char *prefix, int want_trace) {
    char      buf[4096];
    pthread_t tp[MAXTHR], tc[MAXTHR], tr[MAXREL];
    char      diag[1500] = "";
    int       stuck = 0, stuck_phase = 0, proven = 0;

    if (g_plan.sched_permille) {
        snprintf(buf, sizeof(buf), "%llu:%d:%d", (unsigned long long)(g_plan.seed & 0xffffffffu), g_plan.sched_permille,
                 g_plan.sched_us);
        setenv("SVT_VERIF_SCHED", buf, 1);
    } else
        unsetenv("SVT_VERIF_SCHED");
    if (want_trace) {
        snprintf(buf, sizeof(buf), "%s.h%d.trace", prefix, g_plan.h);
        unlink(buf);
        setenv("SVT_VERIF_TRACE", buf, 1);
    } else
        unsetenv("SVT_VERIF_TRACE");

    svt_verif_sched_point(0); /* parses SVT_VERIF_SCHED / SVT_VERIF_TRACE now, before the constructor's records */
    if (make_resource() != EB_ErrorNone || !g_res) {
        dprintf(fd, "{\"h\":%d,\"verdict\":\"harness\",\"why\":\"resource construction failed\"}\n", g_plan.h);
        return 2;
    }
    for (int p = 0; p < g_plan.nprod; p++) g_pf[p] = svt_system_resource_get_producer_fifo(g_res, (uint32_t)p);
    for (int c = 0; c < g_plan.ncons; c++) g_cf[c] = svt_system_resource_get_consumer_fifo(g_res, (uint32_t)c);

    for (int r = 0; r < g_plan.nrel; r++) pthread_create(&tr[r], NULL, releaser_thread, (void *)(intptr_t)r);
    for (int c = 0; c < g_plan.ncons; c++) pthread_create(&tc[c], NULL, consumer_thread, (void *)(intptr_t)c);
    for (int p = 0; p < g_plan.nprod; p++) pthread_create(&tp[p], NULL, producer_thread, (void *)(intptr_t)p);

    int idle = g_plan.shutdown_after >= g_plan.T;
    if (!wait_progress(cond_shutdown_point)) {
        stuck       = 1;
        stuck_phase = 1;
        proven      = diagnose_stuck(diag, sizeof(diag), 0);
    }
    if (!stuck) {
        if (g_plan.ncons) {
            ev(OP_SHUT_CALL, THR_MAIN, 255, 0, 0);
            svt_shutdown_process(g_res);
            ev(OP_SHUT_RET, THR_MAIN, 255, 0, 0);
            if (!wait_progress(cond_consumers_done)) {
                stuck       = 1;
                stuck_phase = 2;
                proven      = diagnose_stuck(diag, sizeof(diag), 1);
            } else
                for (int c = 0; c < g_plan.ncons; c++) pthread_join(tc[c], NULL);
        }
    }
    if (!stuck) {
        pthread_mutex_lock(&g_rq_m);
        g_rq_stop = 1;
        pthread_cond_broadcast(&g_rq_c);
        pthread_mutex_unlock(&g_rq_m);
        for (int r = 0; r < g_plan.nrel; r++) pthread_join(tr[r], NULL);
        if (!wait_progress(cond_producers_settled)) {
            stuck       = 1;
            stuck_phase = 3;
            proven      = diagnose_stuck(diag, sizeof(diag), 1);
        } else {
            for (int p = 0; p < g_plan.nprod; p++)
                if (__atomic_load_n(&g_prod_done[p], RLX))
                    pthread_join(tp[p], NULL);
            if (idle && g_parked)
                viol("client|harness", "producer parked although the pipeline was idle at shutdown");
            final_walk(g_plan.ncons > 0, g_parked);
            analyse_log(idle);
        }
    }
    svt_verif_trace_flush();

    size_t o = 0;
    o += (size_t)snprintf(buf + o, sizeof(buf) - o,
                          "{\"h\":%d,\"cls\":\"%s\",\"nobj\":%d,\"nprod\":%d,\"ncons\":%d,\"nrel\":%d,\"T\":%d,"
                          "\"shutdown_after\":%d,\"nb_permille\":%d,\"sched\":[%d,%d],\"posts\":%u,\"deliveries\":%u,"
                          "\"releases\":%u,\"nb_calls\":%u,\"nb_empty\":%u,\"blocking_calls\":%u,\"client_events\":%u,"
                          "\"perturbations\":%llu,\"trace_records\":%llu,\"parked_producers\":%d,\"stuck\":%d,"
                          "\"proven\":%d,\"diag\":\"%s\",\"viol\":[",
                          g_plan.h, cls_names[g_plan.cls], g_plan.nobj, g_plan.nprod, g_plan.ncons, g_plan.nrel, g_plan.T,
                          g_plan.shutdown_after, g_plan.nb_permille, g_plan.sched_permille, g_plan.sched_us,
                          __atomic_load_n(&g_posts, RLX), __atomic_load_n(&g_deliveries, RLX),
                          __atomic_load_n(&g_releases, RLX), __atomic_load_n(&g_nb_calls, RLX),
                          __atomic_load_n(&g_nb_empty, RLX), __atomic_load_n(&g_blocking_calls, RLX),
                          __atomic_load_n(&g_nev, RLX), (unsigned long long)svt_verif_sched_count(),
                          (unsigned long long)svt_verif_trace_count(), g_parked, stuck ? stuck_phase : 0, proven, diag);
    pthread_mutex_lock(&g_viol_m);
    for (int i = 0; i < g_nviol; i++)
        o += (size_t)snprintf(buf + o, sizeof(buf) - o, "%s[\"%s\",\"%s\"]", i ? "," : "", g_viol[i][0], g_viol[i][1]);
    int nv = g_nviol;
    pthread_mutex_unlock(&g_viol_m);
    o += (size_t)snprintf(buf + o, sizeof(buf) - o, "]}\n");
    if (write(fd, buf, o) < 0)
        return 2;
    if (nv || stuck) {
        char path[1024];
        snprintf(path, sizeof(path), "%s.h%d.clientlog", prefix, g_plan.h);
        dump_log(path);
    }
    return stuck ? 3 : nv ? 1 : 0;
}

/* append the child's trace to the batch trace with seq rebased so that histories stay apart and ordered */
static void merge_trace(const char *prefix, int h, uint64_t ordinal, int out_fd) {
    char path[1024];
    snprintf(path, sizeof(path), "%s.h%d.trace", prefix, h);
    int fd = open(path, O_RDONLY);
    if (fd < 0)
        return;
    static uint64_t rec[7 * 4096];
    for (;;) {
        ssize_t n = read(fd, rec, sizeof(rec));
        if (n <= 0)
            break;
        size_t k = (size_t)n / 56;
        for (size_t i = 0; i < k; i++) rec[i * 7] += (ordinal + 1) << 36;
        if (write(out_fd, rec, k * 56) < 0)
            break;
    }
    close(fd);
    unlink(path);
}

int main(int argc, char **argv) {
    if (argc < 6 || strcmp(argv[1], "run")) {
        fprintf(stderr, "usage: srmstress run <seed> <first> <count> <outprefix> [class=std|nbmulti|pool] [trace=0|1] "
                        "[sched=0|1] [fork=1|0] [stuck_ms=N]\n");
        return 2;
    }
    uint64_t    seed   = strtoull(argv[2], NULL, 10);
    int         first  = atoi(argv[3]);
    int         count  = atoi(argv[4]);
    const char *prefix = argv[5];
    int         cls = CLS_STD, want_trace = 0, sched = 1, use_fork = 1;
    for (int i = 6; i < argc; i++) {
        if (!strncmp(argv[i], "class=", 6)) {
            cls = !strcmp(argv[i] + 6, "nbmulti") ? CLS_NBMULTI : !strcmp(argv[i] + 6, "pool") ? CLS_POOL : CLS_STD;
        } else if (!strncmp(argv[i], "trace=", 6))
            want_trace = atoi(argv[i] + 6);
        else if (!strncmp(argv[i], "sched=", 6))
            sched = atoi(argv[i] + 6);
        else if (!strncmp(argv[i], "fork=", 5))
            use_fork = atoi(argv[i] + 5);
        else if (!strncmp(argv[i], "stuck_ms=", 9))
            g_stuck_us = strtoull(argv[i] + 9, NULL, 10) * 1000ull;
    }
    if (!use_fork && count != 1) {
        fprintf(stderr, "fork=0 runs exactly one history per process\n");
        return 2;
    }
    char path[1024];
    snprintf(path, sizeof(path), "%s.results", prefix);
    int res_fd = open(path, O_WRONLY | O_CREAT | O_APPEND, 0644);
    snprintf(path, sizeof(path), "%s.trace", prefix);
    int tr_fd = want_trace ? open(path, O_WRONLY | O_CREAT | O_APPEND, 0644) : -1;
    if (res_fd < 0 || (want_trace && tr_fd < 0)) {
        perror("open");
        return 2;
    }
    unsetenv("SVT_VERIF_TRACE");
    unsetenv("SVT_VERIF_SCHED");
    int worst = 0, stuck_seen = 0;
    for (int k = 0; k < count; k++) {
        int h = first + k;
        make_plan(seed, h, cls, sched);
        /* a batch that keeps wedging is not worth the full patience: the verdict of a wedged history comes from
         * the state it is in (or is "inconclusive"), never from how long we waited */
        if (stuck_seen >= 3 && g_stuck_us > 2000000)
            g_stuck_us = 2000000;
        if (stuck_seen >= 10) {
            dprintf(res_fd, "{\"h\":%d,\"cls\":\"%s\",\"verdict\":\"batch-aborted\",\"remaining\":%d}\n", h, cls_names[cls],
                    count - k);
            break;
        }
        if (!use_fork) {
            int rc = run_history(res_fd, prefix, want_trace);
            if (want_trace)
                merge_trace(prefix, h, (uint64_t)k, tr_fd);
            return rc;
        }
        fflush(NULL);
        pid_t pid = fork();
        if (pid < 0) {
            perror("fork");
            return 2;
        }
        if (pid == 0) {
            int rc = run_history(res_fd, prefix, want_trace);
            _exit(rc);
        }
        /* hard limit well above the in-history watchdog: a child that does not even report is inconclusive */
        int      status = 0, done = 0;
        uint64_t t0 = v_now_us(), limit = 3 * g_stuck_us + 30000000ull;
        while (!done) {
            pid_t r = waitpid(pid, &status, WNOHANG);
            if (r == pid)
                done = 1;
            else if (v_now_us() - t0 > limit) {
                kill(pid, SIGKILL);
                waitpid(pid, &status, 0);
                dprintf(res_fd, "{\"h\":%d,\"cls\":\"%s\",\"verdict\":\"hard-timeout\",\"nobj\":%d,\"nprod\":%d,\"ncons\":%d}\n", h,
                        cls_names[cls], g_plan.nobj, g_plan.nprod, g_plan.ncons);
                done = 2;
            } else
                usleep(200);
        }
        if (done == 1 && WIFSIGNALED(status)) {
            dprintf(res_fd, "{\"h\":%d,\"cls\":\"%s\",\"verdict\":\"crash\",\"signal\":%d,\"nobj\":%d,\"nprod\":%d,\"ncons\":%d,"
                            "\"nb_permille\":%d,\"shutdown_after\":%d,\"T\":%d}\n",
                    h, cls_names[cls], WTERMSIG(status), g_plan.nobj, g_plan.nprod, g_plan.ncons, g_plan.nb_permille,
                    g_plan.shutdown_after, g_plan.T);
            worst = 1;
        } else if (done == 1) {
            stuck_seen += WEXITSTATUS(status) == 3;
            if (WEXITSTATUS(status) > worst)
                worst = WEXITSTATUS(status);
        } else
            stuck_seen++;
        if (want_trace)
            merge_trace(prefix, h, (uint64_t)k, tr_fd);
    }
    return worst;
}
