/* kdiff: one-time initialisation of the library tables that kernels rely on (what
 * svt_av1_enc_init_handle / init_handle do before any kernel runs). */
#include "aom_dsp_rtcd.h"
#include "kdiff.h"

void kdiff_global_init(void) {}
