/* cfgtaint: which bytes of the caller's EbSvtAv1EncConfiguration does svt_av1_enc_init_handle leave untouched?
 * Fills the structure with pattern A (then B), calls init_handle, and reports every field that still shows the
 * fill pattern in both runs. Output: one JSON object on stdout. */
#include "vcommon.h"
#include <stddef.h>
#include "EbSvtAv1Enc.h"
typedef EbSvtAv1EncConfiguration Cfg;
typedef struct {
    const char *name;
    size_t      off, size;
} Field;
#define F(n) {#n, offsetof(Cfg, n), sizeof(((Cfg *)0)->n)},
#define FA(n, cnt) {#n, offsetof(Cfg, n), sizeof(((Cfg *)0)->n)},
#define FB(n) {#n, offsetof(Cfg, n), sizeof(((Cfg *)0)->n)},
static const Field g_fields[] = {
#include "cfgfields.inc"
};
#define NFIELDS ((int)(sizeof(g_fields) / sizeof(g_fields[0])))

static int snapshot(uint8_t pattern, uint8_t *out) {
    Cfg              cfg;
    EbComponentType *h = NULL;
    memset(&cfg, pattern, sizeof(cfg));
    if (svt_av1_enc_init_handle(&h, NULL, &cfg) != EB_ErrorNone || !h)
        return -1;
    memcpy(out, &cfg, sizeof(cfg));
    svt_av1_enc_deinit_handle(h);
    return 0;
}

int main(void) {
    v_drop_sys_nice();
    if (!freopen("/dev/null", "w", stderr)) {}
    static uint8_t a[sizeof(Cfg)], b[sizeof(Cfg)], c[sizeof(Cfg)];
    int            saved = dup(1);
    if (!freopen("/dev/null", "w", stdout)) {}
    if (snapshot(0xA5, a) || snapshot(0x5A, b) || snapshot(0xA5, c)) {
        dprintf(saved, "{\"ok\":0}\n");
        return 2;
    }
    char  buf[1 << 16];
    int   n = 0;
    size_t covered = 0, untouched_bytes = 0;
    n += snprintf(buf + n, sizeof(buf) - n, "{\"ok\":1,\"sizeof\":%zu,\"fields\":%d,\"untouched\":[", sizeof(Cfg), NFIELDS);
    int first = 1, nondet = 0;
    for (int i = 0; i < NFIELDS; i++) {
        const Field *f = &g_fields[i];
        covered += f->size;
        size_t u = 0;
        for (size_t k = 0; k < f->size; k++)
            if (a[f->off + k] == 0xA5 && b[f->off + k] == 0x5A)
                u++;
        if (memcmp(a + f->off, c + f->off, f->size))
            nondet++;
        if (u) {
            untouched_bytes += u;
            n += snprintf(buf + n, sizeof(buf) - n, "%s{\"name\":\"%s\",\"bytes\":%zu,\"of\":%zu}", first ? "" : ",", f->name, u, f->size);
            first = 0;
        }
    }
    n += snprintf(buf + n, sizeof(buf) - n, "],\"untouched_bytes\":%zu,\"field_bytes\":%zu,\"nondeterministic_fields\":%d}\n",
                  untouched_bytes, covered, nondet);
    if (write(saved, buf, (size_t)n) < 0) {}
    return 0;
}
