/* kdiff handlers: picture operators (residual, average, distortion, pack/unpack, copies) and small
 * analysis kernels (8x8 means, haar, gradient histogram, frame error, log2).
 *
 * Domains (test/ResidualTest.cc, PictureOperatorTest.cc, SpatialFullDistortionTest.cc,
 * PackUnPackTest.cc, compute_mean_test.cc, frame_error_test.cc and the call sites): areas are AV1
 * block / transform sizes (width multiple of 4, even height); 16-bit samples hold 10-bit (or 8-bit)
 * data; "offset" arguments are added to the base pointer by the kernel. */
#include "kdiff.h"
#include "kdiff_sigs.h"

static void area(KdCtx *k, int *w, int *h) {
    int i = k->icase < 9 ? kr_range(k, 0, 21) : (k->icase % 22);
    *w = kd_bsizes[i][0], *h = kd_bsizes[i][1];
}
/* distortion kernels are also called on areas cropped at the picture boundary: any multiple of 4 up to the block size
 * (e.g. a 20-wide chroma area when the luma width is 40 mod 64) */
static void area_crop(KdCtx *k, int *w, int *h) {
    if (kr_bool(k)) {
        area(k, w, h);
        return;
    }
    *w = 4 * kr_range(k, 1, 32);
    *h = 4 * kr_range(k, 1, 32);
}
/* ME-stage areas: the pointers svt_unpack_avg / svt_unpack_avg_safe_sub / svt_picture_average_kernel1_line
 * have no caller left in this tree; their SIMD versions only implement widths up to 64 (and >= 8 for
 * safe_sub), which is also all the unit test (TEST_AVG_SIZES) exercises */
static void area64(KdCtx *k, int minw, int *w, int *h) {
    static const int s[][2] = {{4, 4}, {4, 8}, {8, 4}, {8, 8}, {16, 16}, {4, 16}, {16, 4}, {16, 8}, {8, 16}, {32, 32}, {32, 8},
                               {16, 32}, {8, 32}, {32, 16}, {16, 64}, {64, 16}, {64, 64}, {64, 32}, {32, 64}};
    int              i;
    do i = kr_range(k, 0, 18);
    while (s[i][0] < minw);
    *w = s[i][0], *h = s[i][1];
}
static void *pic(KdCtx *k, int w, int h, int es, long long maxv, int *stride, int is_out) {
    *stride = kstride(k, w, 1);
    kpad(k, 32, 64);
    void *p = kb2(k, w, h, *stride, es, 64, kr_range(k, 0, 3) ? kr_range(k, 0, 15) : 0, 0);
    if (is_out) kprefill2(k, p, w, h, *stride, es);
    else kfill2(k, p, w, h, *stride, es, 0, maxv);
    return p;
}

KDH(residual8) {
    int w, h, is, ps, rs;
    area(k, &w, &h);
    uint8_t *in = (uint8_t *)pic(k, w, h, 1, 255, &is, 0), *pr = (uint8_t *)pic(k, w, h, 1, 255, &ps, 0);
    int16_t *res = (int16_t *)pic(k, w, h, 2, 0, &rs, 1);
    ka(k, "w", w), ka(k, "h", h), ka(k, "input_stride", is), ka(k, "pred_stride", ps), ka(k, "residual_stride", rs);
    kcall(k);
    KFN(k, residual8)(in, (uint32_t)is, pr, (uint32_t)ps, res, (uint32_t)rs, (uint32_t)w, (uint32_t)h);
}
KDH(residual16) {
    int w, h, is, ps, rs, bd = kr_bool(k) ? 10 : 8;
    area(k, &w, &h);
    uint16_t *in = (uint16_t *)pic(k, w, h, 2, (1 << bd) - 1, &is, 0), *pr = (uint16_t *)pic(k, w, h, 2, (1 << bd) - 1, &ps, 0);
    int16_t  *res = (int16_t *)pic(k, w, h, 2, 0, &rs, 1);
    ka(k, "w", w), ka(k, "h", h), ka(k, "input_stride", is), ka(k, "pred_stride", ps), ka(k, "residual_stride", rs), ka(k, "bd", bd);
    kcall(k);
    KFN(k, residual16)(in, (uint32_t)is, pr, (uint32_t)ps, res, (uint32_t)rs, (uint32_t)w, (uint32_t)h);
}
KDH(pic_avg) {
    int w, h, s0, s1, ds;
    area(k, &w, &h);
    uint8_t *a = (uint8_t *)pic(k, w, h, 1, 255, &s0, 0), *b = (uint8_t *)pic(k, w, h, 1, 255, &s1, 0), *d = (uint8_t *)pic(k, w, h, 1, 0, &ds, 1);
    ka(k, "w", w), ka(k, "h", h), ka(k, "src0_stride", s0), ka(k, "src1_stride", s1), ka(k, "dst_stride", ds);
    kcall(k);
    KFN(k, pic_avg)(a, (uint32_t)s0, b, (uint32_t)s1, d, (uint32_t)ds, (uint32_t)w, (uint32_t)h);
}
KDH(pic_avg1) {
    static const int ws[] = {8, 16, 32, 64};
    int              w = KR_PICK(k, ws), s;
    uint8_t         *a = (uint8_t *)pic(k, w, 1, 1, 255, &s, 0), *b = (uint8_t *)pic(k, w, 1, 1, 255, &s, 0), *d = (uint8_t *)pic(k, w, 1, 1, 0, &s, 1);
    ka(k, "w", w);
    kcall(k);
    KFN(k, pic_avg1)(a, b, d, (uint32_t)w);
}
/* spatial full distortion (8-bit) / full_distortion_kernel16_bits (uint16 data behind uint8_t*) */
KDH(sfd) {
    int w, h, is, rs;
    area_crop(k, &w, &h);
    int      io = kr_range(k, 0, 64), ro = kr_range(k, 0, 64);
    uint8_t *in = (uint8_t *)pic(k, w, h, 1, 255, &is, 0), *rc = (uint8_t *)pic(k, w, h, 1, 255, &rs, 0);
    ka(k, "w", w), ka(k, "h", h), ka(k, "input_offset", io), ka(k, "input_stride", is), ka(k, "recon_offset", ro), ka(k, "recon_stride", rs);
    kcall(k);
    kret(k, KFN(k, sfd)(in - io, (uint32_t)io, (uint32_t)is, rc - ro, ro, (uint32_t)rs, (uint32_t)w, (uint32_t)h));
}
KDH(fd16) {
    int w, h, is, rs, bd = kr_bool(k) ? 10 : 8;
    area_crop(k, &w, &h);
    int       io = kr_range(k, 0, 64), ro = kr_range(k, 0, 64);
    uint16_t *in = (uint16_t *)pic(k, w, h, 2, (1 << bd) - 1, &is, 0), *rc = (uint16_t *)pic(k, w, h, 2, (1 << bd) - 1, &rs, 0);
    ka(k, "w", w), ka(k, "h", h), ka(k, "input_offset", io), ka(k, "input_stride", is), ka(k, "recon_offset", ro), ka(k, "recon_stride", rs),
        ka(k, "bd", bd);
    kcall(k);
    kret(k, KFN(k, sfd)((uint8_t *)(in - io), (uint32_t)io, (uint32_t)is, (uint8_t *)(rc - ro), ro, (uint32_t)rs, (uint32_t)w, (uint32_t)h));
}
/* transform-domain distortion: coefficient planes, contiguous (stride = width) or SB-strided,
 * 64-byte aligned; |coeff| < 2^(bd+8+1); recon = de-quantised coeff, i.e. coeff + e with |e| at most
 * ~0.75 quantiser steps (largest step: 5347 for 10-bit, 1336 for 8-bit).  Cases with a larger
 * error (recon unrelated to coeff) form the tagged sub-domain "error-beyond-quant-step". */
KDH(fd32) {
    int cbf_zero = P(0), w, h;
    int i = k->icase < 9 ? kr_range(k, 0, 18) : (k->icase % 19);
    extern const int kd_txs[19][2];
    w = kd_txs[i][0], h = kd_txs[i][1];
    if (w == 64) w = 32; /* only the 32 retained columns / rows of 64-point transforms are compared */
    if (h == 64) h = 32;
    int      cs = kr_bool(k) ? w : 64, rs = kr_bool(k) ? w : 64;
    if (cs < w) cs = w;
    if (rs < w) rs = w;
    int32_t *c = (int32_t *)kb2(k, w, h, cs, 4, 64, 0, 0), *r = (int32_t *)kb2(k, w, h, rs, 4, 64, 0, 0);
    int      wild = !cbf_zero && kr_range(k, 0, 7) == 0;
    kfill2(k, c, w, h, cs, 4, -(1 << 19), (1 << 19));
    if (wild) {
        kfill2(k, r, w, h, rs, 4, -(1 << 19), (1 << 19));
        ktag(k, "error-beyond-quant-step");
    } else {
        int step = kr_range(k, 4, 5347), lim = step * 3 / 4;
        kfill2(k, r, w, h, rs, 4, -lim, lim);
        for (int y = 0; y < h; y++)
            for (int x = 0; x < w; x++) r[y * rs + x] += c[y * cs + x];
        ka(k, "step", step);
    }
    uint64_t *res = (uint64_t *)kb(k, 2, 8, 16);
    ka(k, "w", w), ka(k, "h", h), ka(k, "coeff_stride", cs), ka(k, "recon_stride", rs);
    kcall(k);
    if (cbf_zero) KFN(k, fd32z)(c, (uint32_t)cs, res, (uint32_t)w, (uint32_t)h);
    else KFN(k, fd32)(c, (uint32_t)cs, r, (uint32_t)rs, res, (uint32_t)w, (uint32_t)h);
}

/* global-motion frame error: 8-bit, block of the warp error (<= 32x32, ref stride 32) or a whole
 * (down-scaled) frame */
KDH(frame_error) {
    int w, h, rs, ds;
    if (kr_bool(k)) w = 8 * kr_range(k, 1, 4), h = kr_range(k, 1, 32), rs = 32;
    else w = 16 * kr_range(k, 1, 12), h = kr_range(k, 2, 40), rs = kstride(k, w, 1);
    ds = kstride(k, w, 1);
    kpad(k, 32, 64);
    uint8_t *ref = (uint8_t *)kb2(k, w, h, rs, 1, 32, 0, 0);
    kfill2(k, ref, w, h, rs, 1, 0, 255);
    uint8_t *dst = (uint8_t *)pic(k, w, h, 1, 255, &ds, 0);
    ka(k, "p_width", w), ka(k, "p_height", h), ka(k, "stride", rs), ka(k, "p_stride", ds);
    kcall(k);
    kret(k, (uint64_t)KFN(k, frame_error)(ref, rs, dst, w, h, ds));
}

/* ---- 10-bit pack / unpack */
KDH(unpack_avg) {
    int w, h, s0, s1, ds;
    area64(k, 4, &w, &h);
    uint16_t *a = (uint16_t *)pic(k, w, h, 2, 1023, &s0, 0), *b = (uint16_t *)pic(k, w, h, 2, 1023, &s1, 0);
    uint8_t  *d = (uint8_t *)pic(k, w, h, 1, 0, &ds, 1);
    ka(k, "w", w), ka(k, "h", h), ka(k, "l0_stride", s0), ka(k, "l1_stride", s1), ka(k, "dst_stride", ds);
    kcall(k);
    KFN(k, unpack_avg)(a, (uint32_t)s0, b, (uint32_t)s1, d, (uint32_t)ds, (uint32_t)w, (uint32_t)h);
}
/* unpack_avg_safe_sub: sub_pred = rows sub-sampled by the caller (strides doubled, height halved)
 * plus the last full-resolution row */
KDH(unpack_avg_safe) {
    int w, h, sub = kr_bool(k);
    area64(k, 8, &w, &h);
    if (h < 4) sub = 0;
    int       s0 = kstride(k, w, 1), s1 = kstride(k, w, 1), ds = kstride(k, w, 1);
    uint16_t *a = (uint16_t *)kb2(k, w, h, s0, 2, 64, kr_range(k, 0, 15), 0), *b = (uint16_t *)kb2(k, w, h, s1, 2, 64, kr_range(k, 0, 15), 0);
    kfill2(k, a, w, h, s0, 2, 0, 1023), kfill2(k, b, w, h, s1, 2, 0, 1023);
    uint8_t *d = (uint8_t *)kb2(k, w, h, ds, 1, 64, kr_range(k, 0, 15), 0);
    kprefill2(k, d, w, h, ds, 1);
    ka(k, "w", w), ka(k, "h", h), ka(k, "sub_pred", sub), ka(k, "l0_stride", s0), ka(k, "l1_stride", s1), ka(k, "dst_stride", ds);
    kcall(k);
    if (sub) KFN(k, unpack_avg_safe)(a, (uint32_t)s0 * 2, b, (uint32_t)s1 * 2, d, (uint32_t)ds * 2, 1, (uint32_t)w, (uint32_t)h / 2);
    else KFN(k, unpack_avg_safe)(a, (uint32_t)s0, b, (uint32_t)s1, d, (uint32_t)ds, 0, (uint32_t)w, (uint32_t)h);
}
KDH(unpack8) {
    int w, h, is, os;
    area(k, &w, &h);
    uint16_t *in = (uint16_t *)pic(k, w, h, 2, 1023, &is, 0);
    uint8_t  *o  = (uint8_t *)pic(k, w, h, 1, 0, &os, 1);
    ka(k, "w", w), ka(k, "h", h), ka(k, "in_stride", is), ka(k, "out8_stride", os);
    kcall(k);
    KFN(k, unpack8)(in, (uint32_t)is, o, (uint32_t)os, (uint32_t)w, (uint32_t)h);
}
KDH(msb_unpack) {
    int w, h, is, os, ns;
    area(k, &w, &h);
    uint16_t *in = (uint16_t *)pic(k, w, h, 2, 1023, &is, 0);
    uint8_t  *o8 = (uint8_t *)pic(k, w, h, 1, 0, &os, 1), *on = (uint8_t *)pic(k, w, h, 1, 0, &ns, 1);
    ka(k, "w", w), ka(k, "h", h), ka(k, "in_stride", is), ka(k, "out8_stride", os), ka(k, "outn_stride", ns);
    kcall(k);
    KFN(k, msb_unpack)(in, (uint32_t)is, o8, on, (uint32_t)os, (uint32_t)ns, (uint32_t)w, (uint32_t)h);
}
KDH(msb_pack) {
    int w, h, s8, sn, os;
    area(k, &w, &h);
    uint8_t  *i8 = (uint8_t *)pic(k, w, h, 1, 255, &s8, 0), *in = (uint8_t *)pic(k, w, h, 1, 255, &sn, 0);
    uint16_t *o  = (uint16_t *)pic(k, w, h, 2, 0, &os, 1);
    ka(k, "w", w), ka(k, "h", h), ka(k, "in8_stride", s8), ka(k, "inn_stride", sn), ka(k, "out_stride", os);
    kcall(k);
    KFN(k, msb_pack)(i8, (uint32_t)s8, in, o, (uint32_t)sn, (uint32_t)os, (uint32_t)w, (uint32_t)h);
}
/* compressed 10-bit input (4 two-bit samples per byte): widths 32 / 64 (test TEST_PACK_SIZES) */
static const int pack_sz[][2] = {{32, 32}, {32, 8}, {32, 16}, {64, 16}, {64, 64}, {64, 32}, {32, 64}};
KDH(packmsb) {
    int i = k->icase % 7, w = pack_sz[i][0], h = pack_sz[i][1], s8, sn, os;
    uint8_t  *i8 = (uint8_t *)pic(k, w, h, 1, 255, &s8, 0), *in = (uint8_t *)pic(k, w / 4, h, 1, 255, &sn, 0);
    uint16_t *o  = (uint16_t *)pic(k, w, h, 2, 0, &os, 1);
    ka(k, "w", w), ka(k, "h", h), ka(k, "in8_stride", s8), ka(k, "inn_stride", sn), ka(k, "out_stride", os);
    kcall(k);
    KFN(k, msb_pack)(i8, (uint32_t)s8, in, o, (uint32_t)sn, (uint32_t)os, (uint32_t)w, (uint32_t)h);
}
KDH(c_pack) {
    int i = k->icase % 7, w = pack_sz[i][0], h = pack_sz[i][1], is, os;
    uint8_t *in = (uint8_t *)pic(k, w, h, 1, 255, &is, 0), *o = (uint8_t *)pic(k, w / 4, h, 1, 0, &os, 1);
    uint8_t *cache = (uint8_t *)kb(k, 64 * 64, 1, 32);
    ka(k, "w", w), ka(k, "h", h), ka(k, "inn_stride", is), ka(k, "out_stride", os);
    kcall(k);
    KFN(k, c_pack)(in, (uint32_t)is, o, (uint32_t)os, cache, (uint32_t)w, (uint32_t)h);
    kdontcare(k, cache, 64 * 64); /* scratch */
}
KDH(cvt8to16) {
    int w, h, ss, ds;
    area(k, &w, &h);
    uint8_t  *s = (uint8_t *)pic(k, w, h, 1, 255, &ss, 0);
    uint16_t *d = (uint16_t *)pic(k, w, h, 2, 0, &ds, 1);
    ka(k, "w", w), ka(k, "h", h), ka(k, "src_stride", ss), ka(k, "dst_stride", ds);
    kcall(k);
    KFN(k, cvt8to16)(s, (uint32_t)ss, d, (uint32_t)ds, (uint32_t)w, (uint32_t)h);
}
KDH(cvt16to8) {
    int w, h, ss, ds;
    area(k, &w, &h);
    uint16_t *s = (uint16_t *)pic(k, w, h, 2, 255, &ss, 0); /* 8-bit content in 16-bit containers */
    uint8_t  *d = (uint8_t *)pic(k, w, h, 1, 0, &ds, 1);
    ka(k, "w", w), ka(k, "h", h), ka(k, "src_stride", ss), ka(k, "dst_stride", ds);
    kcall(k);
    KFN(k, cvt16to8)(s, (uint32_t)ss, d, (uint32_t)ds, (uint32_t)w, (uint32_t)h);
}
KDH(memcpy) {
    size_t   n = kr_bool(k) ? (size_t)kr_range(k, 1, 300) : (size_t)kr_range(k, 1, 70000);
    int      so = kr_range(k, 0, 15), dofs = kr_range(k, 0, 15);
    uint8_t *s = (uint8_t *)kb2(k, (int)n, 1, (int)n, 1, 64, so, 0), *d = (uint8_t *)kb2(k, (int)n, 1, (int)n, 1, 64, dofs, 0);
    kfill(k, s, n, 1, 0, 255);
    ka(k, "size", (long long)n);
    kcall(k);
    KFN(k, memcpy)(d, s, n);
}
KDH(init_buf32) {
    uint32_t c128 = (uint32_t)kr_range(k, 0, 40), c32 = (uint32_t)kr_range(k, 0, 3), v = kr(k);
    if (c128 + c32 == 0) c32 = 1;
    uint32_t *p = (uint32_t *)kb(k, c128 * 4 + c32, 4, 16);
    ka(k, "count128", c128), ka(k, "count32", c32), ka(k, "value", v);
    kcall(k);
    KFN(k, init_buf32)(p, c128, c32, v);
}
KDH(log2f) {
    uint32_t x = k->icase < 64 ? (1u << (k->icase / 2)) + (k->icase & 1 ? (1u << (k->icase / 2)) - 1 : 0) : (kr(k) >> kr_range(k, 0, 31));
    if (x == 0) x = 1;
    uint32_t *dummy = (uint32_t *)kb(k, 1, 4, 4);
    *dummy          = x;
    k->nonconst     = 1;
    ka(k, "x", x);
    kcall(k);
    kret(k, KFN(k, log2f)(x));
}

/* ---- picture analysis: 8x8 means on the (padded) source picture */
KDH(mean8x8) {
    int      s;
    uint8_t *p = (uint8_t *)pic(k, 8, 8, 1, 255, &s, 0);
    ka(k, "stride", s);
    kcall(k);
    kret(k, KFN(k, mean8x8)(p, (uint32_t)s, 8, 8));
}
KDH(submean8x8) {
    int      s;
    uint8_t *p = (uint8_t *)pic(k, 8, 8, 1, 255, &s, 0);
    ka(k, "stride", s);
    kcall(k);
    kret(k, KFN(k, submean8x8)(p, (uint16_t)s));
}
KDH(var4x8x8) {
    int      s;
    uint8_t *p = (uint8_t *)pic(k, 32, 8, 1, 255, &s, 0);
    uint64_t *m = (uint64_t *)kb(k, 4, 8, 16), *m2 = (uint64_t *)kb(k, 4, 8, 16);
    ka(k, "stride", s);
    kcall(k);
    KFN(k, var4x8x8)(p, (uint16_t)s, m, m2);
}
KDH(haar) {
    int      s;
    uint8_t *p = (uint8_t *)pic(k, 8, 8, 1, 255, &s, 0);
    ka(k, "stride", s);
    kcall(k);
    kret(k, (uint64_t)(int64_t)KFN(k, haar)(p, s, 0));
}
KDH(grad_hist) {
    static const int sz[][2] = {{8, 8}, {8, 16}, {16, 8}, {16, 16}, {16, 32}, {32, 16}, {32, 32}, {32, 64}, {64, 32}, {64, 64}, {8, 32}, {32, 8}, {16, 64}, {64, 16}};
    int              i = k->icase % 14, cols = sz[i][0], rows = sz[i][1], s;
    uint8_t         *p = (uint8_t *)pic(k, cols, rows, 1, 255, &s, 0);
    uint64_t        *hist = (uint64_t *)kb(k, 8, 8, 32);
    ka(k, "rows", rows), ka(k, "cols", cols), ka(k, "stride", s);
    kcall(k);
    KFN(k, grad_hist)(p, s, rows, cols, hist);
}

/* ---- noise-model FFT (float).  fft: n*n real -> 2*n*n (re,im interleaved); ifft the reverse; temp
 * is scratch.  Inputs in [0,1) (denoising works on normalised blocks) and scaled spectra. */
KDH(fft) {
    int    n = P(0), inv = P(1);
    size_t in_n = (size_t)n * (size_t)n * (inv ? 2 : 1), out_n = (size_t)n * (size_t)n * (inv ? 1 : 2);
    float *in = (float *)kb(k, in_n, 4, 32), *tmp = (float *)kb(k, 2 * (size_t)n * (size_t)n, 4, 32), *out = (float *)kb(k, out_n, 4, 32);
    int32_t *raw = (int32_t *)kb(k, in_n, 4, 32);
    kfill(k, raw, in_n, 4, 0, (1 << 20) - 1);
    for (size_t i = 0; i < in_n; i++) in[i] = (float)raw[i] / (float)(1 << 20) * (inv ? (float)(n * n) : 1.0f) - (inv ? (float)(n * n) / 2 : 0.0f);
    ka(k, "n", n), ka(k, "inverse", inv);
    kcall(k);
    KFN(k, fft)(in, tmp, out);
    kdontcare(k, tmp, 2 * (size_t)n * (size_t)n * 4);
    /* -0.0f and +0.0f are the same number: canonicalise before the byte-wise comparison */
    for (size_t i = 0; i < out_n; i++)
        if (out[i] == 0.0f) out[i] = 0.0f;
}

/* corner-match cross correlation: 13x13 windows centred on (x, y) inside two 8-bit pictures */
KDH(cross_corr) {
    int      s1, s2, w = 13 + kr_range(k, 0, 20), h = 13 + kr_range(k, 0, 20);
    uint8_t *a = (uint8_t *)pic(k, w, h, 1, 255, &s1, 0), *b = (uint8_t *)pic(k, w, h, 1, 255, &s2, 0);
    int      x1 = kr_range(k, 6, w - 7), y1 = kr_range(k, 6, h - 7), x2 = kr_range(k, 6, w - 7), y2 = kr_range(k, 6, h - 7);
    ka(k, "x1", x1), ka(k, "y1", y1), ka(k, "x2", x2), ka(k, "y2", y2), ka(k, "stride1", s1), ka(k, "stride2", s2);
    kcall(k);
    kret_d(k, KFN(k, cross_corr)(a, s1, x1, y1, b, s2, x2, y2));
}
