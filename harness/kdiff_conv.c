/* kdiff handlers: inter-prediction convolution (single-reference, compound/jnt; 8-bit and 16-bit),
 * svt_aom_convolve8_horiz/vert, wiener convolve.
 *
 * Domain (EbEncInterPrediction.c, test/convolve_2d_test.cc):
 *  - kernel selected as convolve[subpel_x != 0][subpel_y != 0][is_compound]: 2d => both fractions
 *    non-zero, x => only x, y => only y, copy => none; fractions 1..15;
 *  - filters from av1_get_interp_filter_params_with_block_size(type, w|h), type in regular / smooth /
 *    sharp / bilinear (the 4-tap variants are chosen by the library for w|h <= 4);
 *  - block = AV1 block size or its 4:2:0 chroma size (down to 2x2 as in the unit test);
 *  - ConvolveParams from get_conv_params_no_round(); compound: CONV_BUF 128-strided 32-byte aligned
 *    scratch (tmp_dst[128*128] in the encoder), do_average 0/1, use_jnt_comp_avg 0/1 with the
 *    quant_dist_lookup_table weights; for do_average = 1 the scratch holds the output of the same
 *    kernel (C) on another reference block;
 *  - src points into a padded reference picture: the 8-tap footprint (3 before, 4 after) is declared
 *    input, further bytes around it exist (picture padding) but must not influence the result. */
#include "EbInterPrediction.h"
#include "convolve.h"
#include "filter.h"
#include "kdiff.h"
#include "kdiff_sigs.h"

static void pick_wh(KdCtx *k, int *w, int *h) {
    int i = k->icase < 9 ? kr_range(k, 0, 21) : (k->icase % 22);
    int c = kr_range(k, 0, 2) == 0;
    *w    = kd_bsizes[i][0] >> c;
    *h    = kd_bsizes[i][1] >> c;
}

typedef struct {
    int                w, h, fx, fy, sx, sy, bd;
    InterpFilterParams px, py;
    ConvolveParams     cp;
} ConvArgs;

static void conv_args(KdCtx *k, ConvArgs *a, int kind, int compound, int bd) {
    pick_wh(k, &a->w, &a->h);
    a->bd = bd;
    /* dual filter: each direction regular / smooth / sharp; BILINEAR only as the frame-level filter,
     * i.e. for both directions (AV1 spec 5.11.x interp_filter; intra block copy uses it too) */
    a->fx = kr_range(k, 0, 2), a->fy = kr_range(k, 0, 2);
    if (kr_range(k, 0, 5) == 0) a->fx = a->fy = 3;
    /* beyond the random draws: every third sweep over the block sizes uses BILINEAR, so that each (size, 2-tap path)
     * pair is met in every run and not only when the draw happens to hit it */
    if (k->icase >= 9 && ((k->icase - 9) / 22) % 3 == 2) a->fx = a->fy = 3;
    /* the encoder itself never combines BILINEAR with compound prediction (only the decoder can meet
     * it, for streams with interpolation_filter = BILINEAR): separate key */
    if (compound && a->fx == 3) ktag(k, "compound-bilinear");
    a->sx = (kind == 0 || kind == 1) ? kr_range(k, 1, 15) : 0;
    a->sy = (kind == 0 || kind == 2) ? kr_range(k, 1, 15) : 0;
    a->px = av1_get_interp_filter_params_with_block_size((InterpFilter)a->fx, a->w);
    a->py = av1_get_interp_filter_params_with_block_size((InterpFilter)a->fy, a->h);
    a->cp = get_conv_params_no_round(0, 0, 0, NULL, 0, compound, bd);
    a->cp.fwd_offset = a->cp.bck_offset = a->cp.use_dist_wtd_comp_avg = 0;
    ka(k, "w", a->w), ka(k, "h", a->h), ka(k, "filter_x", a->fx), ka(k, "filter_y", a->fy), ka(k, "subpel_x", a->sx), ka(k, "subpel_y", a->sy),
        ka(k, "bd", bd);
}

/* reference block: 8-tap footprint declared, surrounded by readable junk */
static void *mk_ref(KdCtx *k, int w, int h, int es, int maxv, int *stride) {
    int fw = w + 7, fh = h + 7;
    *stride = kstride(k, fw, 1);
    /* reference pictures are padded by (super-block size + 32) samples on every side and motion
     * vectors are clamped so that block + filter footprint stays inside; the AVX2 horizontal passes
     * work on row pairs and may touch one more row below the (odd-height) footprint, still inside the
     * padding: two extra rows + 96 bytes are readable here */
    kpad(k, 64, 96 + 2 * (size_t)*stride * (size_t)es);
    uint8_t *b = (uint8_t *)kb2(k, fw, fh, *stride, es, 64, kr_range(k, 0, 15), 0);
    kfill2(k, b, fw, fh, *stride, es, 0, maxv);
    return b + (size_t)(3 * *stride + 3) * (size_t)es;
}

static ConvBufType *mk_convbuf(KdCtx *k, int w, int h) {
    /* tmp_dst[128 * 128], 32-byte aligned, stride 128; only w x h is specified */
    kpad(k, 0, (size_t)(128 * 128 - ((h - 1) * 128 + w)) * sizeof(ConvBufType));
    ConvBufType *c = (ConvBufType *)kb2(k, w, h, 128, sizeof(ConvBufType), 32, 0, 0);
    kprefill2(k, c, w, h, 128, sizeof(ConvBufType));
    return c;
}

static void compound_setup(KdCtx *k, ConvArgs *a) {
    static const int tbl[2][4][2] = {{{9, 7}, {11, 5}, {12, 4}, {13, 3}}, {{7, 9}, {5, 11}, {4, 12}, {3, 13}}};
    a->cp.do_average       = kr_bool(k);
    a->cp.use_jnt_comp_avg = kr_bool(k);
    if (k->icase >= 9 && k->icase < 9 + 264) {
        /* one (average, distance-weighted) path per sweep over the block sizes; the BILINEAR sweeps (every third one,
         * see conv_args) start with the averaging + distance-weighted path, the one with the most code of its own */
        int sweep = (k->icase - 9) / 22;
        int c     = (sweep % 3 == 2) ? 3 - ((sweep / 3) & 3) : (sweep & 3);
        a->cp.do_average       = c & 1;
        a->cp.use_jnt_comp_avg = (c >> 1) & 1;
    }
    int i = kr_range(k, 0, 1), j = kr_range(k, 0, 3);
    a->cp.fwd_offset = tbl[i][j][0];
    a->cp.bck_offset = tbl[i][j][1];
    a->cp.use_dist_wtd_comp_avg = a->cp.use_jnt_comp_avg;
    ka(k, "do_average", a->cp.do_average), ka(k, "use_jnt_comp_avg", a->cp.use_jnt_comp_avg), ka(k, "fwd_offset", a->cp.fwd_offset),
        ka(k, "bck_offset", a->cp.bck_offset);
}

/* parameter structs live in compared buffers (a kernel must not modify them): copy field by field so
 * that struct padding stays zero */
static ConvolveParams *mk_cp(KdCtx *k, const ConvolveParams *c) {
    ConvolveParams *cp = (ConvolveParams *)kb(k, sizeof(ConvolveParams), 1, 8);
    cp->ref = 0, cp->do_average = c->do_average, cp->dst = c->dst, cp->dst_stride = c->dst_stride, cp->round_0 = c->round_0;
    cp->round_1 = c->round_1, cp->plane = 0, cp->is_compound = c->is_compound, cp->use_jnt_comp_avg = c->use_jnt_comp_avg;
    cp->fwd_offset = c->fwd_offset, cp->bck_offset = c->bck_offset, cp->use_dist_wtd_comp_avg = c->use_dist_wtd_comp_avg;
    return cp;
}
static InterpFilterParams *mk_fp(KdCtx *k, const InterpFilterParams *f) {
    InterpFilterParams *p = (InterpFilterParams *)kb(k, sizeof(InterpFilterParams), 1, 8);
    p->filter_ptr = f->filter_ptr, p->taps = f->taps, p->subpel_shifts = f->subpel_shifts, p->interp_filter = f->interp_filter;
    return p;
}

KDH(convolve) {
    int      kind = P(0), compound = P(1), ss, ds;
    ConvArgs a;
    conv_args(k, &a, kind, compound, 8);
    const uint8_t *src = (const uint8_t *)mk_ref(k, a.w, a.h, 1, 255, &ss);
    ds                 = kstride(k, a.w, 1);
    uint8_t *dst       = (uint8_t *)kb2(k, a.w, a.h, ds, 1, 64, kr_range(k, 0, 15), 0);
    kprefill2(k, dst, a.w, a.h, ds, 1);
    ka(k, "src_stride", ss), ka(k, "dst_stride", ds);
    if (compound) {
        compound_setup(k, &a);
        ConvBufType *cb  = mk_convbuf(k, a.w, a.h);
        a.cp.dst         = cb;
        a.cp.dst_stride  = 128;
        if (a.cp.do_average) {
            /* first reference: same kernel, C version, do_average = 0 */
            int            ss0;
            const uint8_t *src0 = (const uint8_t *)mk_ref(k, a.w, a.h, 1, 255, &ss0);
            ConvolveParams c0   = a.cp;
            c0.do_average       = 0;
            ((kds_convolve)k->e->v[0].fn)(src0, ss0, dst, ds, a.w, a.h, &a.px, &a.py, a.sx, a.sy, &c0);
        }
    }
    ConvolveParams     *cp = mk_cp(k, &a.cp);
    InterpFilterParams *px = mk_fp(k, &a.px), *py = mk_fp(k, &a.py);
    kcall(k);
    KFN(k, convolve)(src, ss, dst, ds, a.w, a.h, px, py, a.sx, a.sy, cp);
    /* cp->dst is a pointer into this run's memory: not comparable */
    cp->dst = NULL;
}

KDH(convolve_hbd) {
    int      kind = P(0), compound = P(1), ss, ds;
    int      bd = kr_bool(k) ? 10 : 8;
    ConvArgs a;
    conv_args(k, &a, kind, compound, bd);
    const uint16_t *src = (const uint16_t *)mk_ref(k, a.w, a.h, 2, (1 << bd) - 1, &ss);
    ds                  = kstride(k, a.w, 1);
    uint16_t *dst       = (uint16_t *)kb2(k, a.w, a.h, ds, 2, 64, kr_range(k, 0, 15), 0);
    kprefill2(k, dst, a.w, a.h, ds, 2);
    ka(k, "src_stride", ss), ka(k, "dst_stride", ds);
    if (compound) {
        compound_setup(k, &a);
        ConvBufType *cb = mk_convbuf(k, a.w, a.h);
        a.cp.dst        = cb;
        a.cp.dst_stride = 128;
        if (a.cp.do_average) {
            int             ss0;
            const uint16_t *src0 = (const uint16_t *)mk_ref(k, a.w, a.h, 2, (1 << bd) - 1, &ss0);
            ConvolveParams  c0   = a.cp;
            c0.do_average        = 0;
            ((kds_convolve_hbd)k->e->v[0].fn)(src0, ss0, dst, ds, a.w, a.h, &a.px, &a.py, a.sx, a.sy, &c0, bd);
        }
    }
    ConvolveParams     *cp = mk_cp(k, &a.cp);
    InterpFilterParams *px = mk_fp(k, &a.px), *py = mk_fp(k, &a.py);
    kcall(k);
    KFN(k, convolve_hbd)(src, ss, dst, ds, a.w, a.h, px, py, a.sx, a.sy, cp, bd);
    cp->dst = NULL;
}
