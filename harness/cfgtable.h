/* Field table of EbSvtAv1EncConfiguration (generated list cfgfields.inc) with set/dump helpers. */
#ifndef CFGTABLE_H
#define CFGTABLE_H
#include <stddef.h>
#include "EbSvtAv1Enc.h"
/* ------------------------------------------------------------ config field table */
typedef EbSvtAv1EncConfiguration Cfg;
enum { K_SIGNED, K_UNSIGNED, K_BLOB };
typedef struct {
    const char *name;
    size_t      off, size, elem;
    int         kind;
} Field;
#define KIND_OF(x)                                                                                         \
    _Generic((x), int8_t : K_SIGNED, int16_t : K_SIGNED, int32_t : K_SIGNED, int64_t : K_SIGNED, char : K_SIGNED, \
             default : K_UNSIGNED)
#define F(n) {#n, offsetof(Cfg, n), sizeof(((Cfg *)0)->n), sizeof(((Cfg *)0)->n), KIND_OF(((Cfg *)0)->n)},
#define FA(n, cnt) {#n, offsetof(Cfg, n), sizeof(((Cfg *)0)->n), sizeof(((Cfg *)0)->n[0]), KIND_OF(((Cfg *)0)->n[0])},
#define FB(n) {#n, offsetof(Cfg, n), sizeof(((Cfg *)0)->n), sizeof(((Cfg *)0)->n), K_BLOB},
static const Field g_fields[] = {
#include "cfgfields.inc"
};
#define NFIELDS ((int)(sizeof(g_fields) / sizeof(g_fields[0])))

static int set_field(Cfg *cfg, const char *key, const char *val) {
    /* key: name or name[i] */
    char name[96];
    int  idx = 0;
    const char *br = strchr(key, '[');
    if (br) {
        size_t n = (size_t)(br - key);
        if (n >= sizeof(name))
            return -1;
        memcpy(name, key, n);
        name[n] = 0;
        idx     = atoi(br + 1);
    } else {
        snprintf(name, sizeof(name), "%s", key);
    }
    for (int i = 0; i < NFIELDS; i++) {
        const Field *f = &g_fields[i];
        if (strcmp(f->name, name))
            continue;
        if (f->kind == K_BLOB)
            return -1;
        if (idx < 0 || (size_t)idx >= f->size / f->elem)
            return -1;
        uint8_t *p = (uint8_t *)cfg + f->off + (size_t)idx * f->elem;
        if (f->kind == K_SIGNED) {
            long long v = strtoll(val, NULL, 0);
            switch (f->elem) {
            case 1: *(int8_t *)p = (int8_t)v; break;
            case 2: *(int16_t *)p = (int16_t)v; break;
            case 4: *(int32_t *)p = (int32_t)v; break;
            default: *(int64_t *)p = (int64_t)v; break;
            }
        } else {
            unsigned long long v = (val[0] == '-') ? (unsigned long long)strtoll(val, NULL, 0) : strtoull(val, NULL, 0);
            switch (f->elem) {
            case 1: *(uint8_t *)p = (uint8_t)v; break;
            case 2: *(uint16_t *)p = (uint16_t)v; break;
            case 4: *(uint32_t *)p = (uint32_t)v; break;
            default: *(uint64_t *)p = (uint64_t)v; break;
            }
        }
        return 0;
    }
    return -1;
}

static void dump_cfg(FILE *f, const Cfg *cfg) {
    fprintf(f, "{");
    int first = 1;
    for (int i = 0; i < NFIELDS; i++) {
        const Field *fd = &g_fields[i];
        if (fd->kind == K_BLOB)
            continue;
        size_t cnt = fd->size / fd->elem;
        fprintf(f, "%s\"%s\":", first ? "" : ",", fd->name);
        first = 0;
        if (cnt > 1)
            fprintf(f, "[");
        for (size_t k = 0; k < cnt; k++) {
            const uint8_t *p = (const uint8_t *)cfg + fd->off + k * fd->elem;
            long long      v;
            if (fd->kind == K_SIGNED)
                v = fd->elem == 1 ? *(const int8_t *)p : fd->elem == 2 ? *(const int16_t *)p : fd->elem == 4 ? *(const int32_t *)p : *(const int64_t *)p;
            else
                v = fd->elem == 1 ? *(const uint8_t *)p : fd->elem == 2 ? *(const uint16_t *)p : fd->elem == 4 ? *(const uint32_t *)p : (long long)*(const uint64_t *)p;
            fprintf(f, "%s%lld", k ? "," : "", v);
        }
        if (cnt > 1)
            fprintf(f, "]");
    }
    fprintf(f, "}");
}

#endif
