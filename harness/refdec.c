/* refdec: independent reference decoders (libaom 3.x, dav1d 1.x) through dlopen, no headers.
 *
 * usage: refdec <aom|dav1d> <in.ivf> <out.frames|-> [from=<packet index>] [grain=0|1] [threads=N]
 * Writes VFRM records keyed by output order and prints one JSON line on stdout:
 *   {"ok":1,"dec":"aom","frames":N,"packets":P,"per_packet":[..],"w":..,"h":..,"bd":..}
 * exit: 0 decoded; 1 the decoder rejected the stream (JSON has ok=0 and the failing packet);
 *       2 inconclusive: library missing or assumed struct layout failed its self-check.
 */
#include <stdio.h>
#include <stdlib.h>
#include <string.h>
#include <stdint.h>
#include <stddef.h>
#include <errno.h>
#include <dlfcn.h>

typedef struct {
    unsigned threads, w, h, allow_lowbitdepth;
} AomDecCfg;
typedef struct AomImage {
    int            fmt, cp, tc, mc, monochrome, csp, range;
    unsigned       w, h, bit_depth, d_w, d_h, r_w, r_h, x_chroma_shift, y_chroma_shift;
    unsigned char *planes[3];
    int            stride[3];
    size_t         sz;
    int            bps;
    int            temporal_id, spatial_id;
    void *         user_priv;
    unsigned char *img_data;
    int            img_data_owner, self_allocd;
    void *         metadata;
    void *         fb_priv;
} AomImage;

typedef struct {
    void *    seq_hdr, *frame_hdr;
    void *    data[3];
    ptrdiff_t stride[2];
    int       w, h, layout, bpc;
    char      rest[1024];
} DPic;
typedef struct {
    const uint8_t *data;
    size_t         sz;
    void *         ref;
    char           rest[256];
} DData;

static FILE *   g_out;
static int      g_frames, g_w, g_h, g_bd;
static unsigned g_ivf_w, g_ivf_h;
static int      g_layout_bad;

static void emit(int w, int h, int bd, int hbd_storage, uint8_t *const planes[3], const ptrdiff_t strides[3]) {
    /* layout sanity: dimensions plausible and consistent with the container */
    if (w <= 0 || h <= 0 || w > 16384 || h > 16384 || (bd != 8 && bd != 10 && bd != 12) || strides[0] < (ptrdiff_t)w) {
        g_layout_bad = 1;
        return;
    }
    if (!g_frames) {
        g_w  = w;
        g_h  = h;
        g_bd = bd;
    }
    if (g_out) {
        int    bps_out = bd > 8 ? 2 : 1;
        int    cw = (w + 1) / 2, ch = (h + 1) / 2;
        size_t n = ((size_t)w * h + 2 * (size_t)cw * ch) * bps_out;
        fprintf(g_out, "FRAME %d %d %d %d %zu\n", g_frames, w, h, bd, n);
        for (int p = 0; p < 3; p++) {
            int pw = p ? cw : w, ph = p ? ch : h;
            for (int y = 0; y < ph; y++) {
                const uint8_t *row = planes[p] + (size_t)y * strides[p];
                if (hbd_storage == (bps_out == 2))
                    fwrite(row, bps_out, pw, g_out);
                else if (hbd_storage) { /* 16-bit storage of 8-bit data */
                    for (int x = 0; x < pw; x++) fputc(((const uint16_t *)row)[x] & 255, g_out);
                } else {
                    for (int x = 0; x < pw; x++) {
                        fputc(row[x], g_out);
                        fputc(0, g_out);
                    }
                }
            }
        }
    }
    g_frames++;
}

static int read_packet(FILE *f, uint8_t **buf, uint32_t *sz) {
    uint8_t fh[12];
    if (fread(fh, 1, 12, f) != 12)
        return 0;
    *sz  = fh[0] | fh[1] << 8 | fh[2] << 16 | (uint32_t)fh[3] << 24;
    *buf = (uint8_t *)malloc(*sz ? *sz : 1);
    if (fread(*buf, 1, *sz, f) != *sz) {
        free(*buf);
        return 0;
    }
    return 1;
}

int main(int argc, char **argv) {
    if (argc < 4) {
        fprintf(stderr, "usage: refdec <aom|dav1d> in.ivf out.frames [from=K] [grain=1]\n");
        return 2;
    }
    int from = 0, grain = 1, threads = 1;
    for (int i = 4; i < argc; i++) {
        if (!strncmp(argv[i], "from=", 5)) from = atoi(argv[i] + 5);
        if (!strncmp(argv[i], "grain=", 6)) grain = atoi(argv[i] + 6);
        if (!strncmp(argv[i], "threads=", 8)) threads = atoi(argv[i] + 8);
    }
    const char *which = argv[1];
    FILE *      f     = fopen(argv[2], "rb");
    if (!f) {
        printf("{\"ok\":0,\"dec\":\"%s\",\"error\":\"cannot open input\"}\n", which);
        return 2;
    }
    uint8_t hdr[32];
    if (fread(hdr, 1, 32, f) != 32 || memcmp(hdr, "DKIF", 4)) {
        printf("{\"ok\":0,\"dec\":\"%s\",\"error\":\"not ivf\"}\n", which);
        return 2;
    }
    g_ivf_w = hdr[12] | hdr[13] << 8;
    g_ivf_h = hdr[14] | hdr[15] << 8;
    if (strcmp(argv[3], "-"))
        g_out = fopen(argv[3], "wb");
    int  npk = 0, fail_pkt = -1, fail_code = 0;
    int *per = NULL;
    int  percap = 0;

    if (!strcmp(which, "aom")) {
        void *h = dlopen("libaom.so.3", RTLD_NOW);
        if (!h) {
            printf("{\"ok\":0,\"dec\":\"aom\",\"error\":\"libaom.so.3 not available\"}\n");
            return 2;
        }
        void *(*dx)(void)                                         = dlsym(h, "aom_codec_av1_dx");
        int (*init)(void *, void *, const AomDecCfg *, long, int) = dlsym(h, "aom_codec_dec_init_ver");
        int (*decode)(void *, const uint8_t *, size_t, void *)    = dlsym(h, "aom_codec_decode");
        AomImage *(*get)(void *, void **)                         = dlsym(h, "aom_codec_get_frame");
        int (*destroy)(void *)                                    = dlsym(h, "aom_codec_destroy");
        if (!dx || !init || !decode || !get || !destroy) {
            printf("{\"ok\":0,\"dec\":\"aom\",\"error\":\"symbols missing\"}\n");
            return 2;
        }
        char *    ctx = calloc(1, 1024);
        AomDecCfg cfg = {(unsigned)threads, 0, 0, 1};
        int       abi = -1;
        for (int v = 0; v < 80; v++) {
            memset(ctx, 0, 1024);
            if (init(ctx, dx(), &cfg, 0, v) == 0) {
                abi = v;
                break;
            }
        }
        if (abi < 0) {
            printf("{\"ok\":0,\"dec\":\"aom\",\"error\":\"no ABI version accepted\"}\n");
            return 2;
        }
        (void)grain; /* libaom applies film grain by default */
        uint8_t *buf;
        uint32_t sz;
        int      idx = 0;
        while (read_packet(f, &buf, &sz)) {
            if (idx++ < from) {
                free(buf);
                continue;
            }
            int before = g_frames;
            int r      = decode(ctx, buf, sz, NULL);
            if (r) {
                fail_pkt  = idx - 1;
                fail_code = r;
                free(buf);
                break;
            }
            void *    it = NULL;
            AomImage *img;
            while ((img = get(ctx, &it))) {
                int       hbd = (img->fmt & 0x800) ? 1 : 0;
                uint8_t * pl[3] = {img->planes[0], img->planes[1], img->planes[2]};
                ptrdiff_t st[3] = {img->stride[0], img->stride[1], img->stride[2]};
                if (img->x_chroma_shift != 1 || img->y_chroma_shift != 1 || img->d_w > img->w + 0u || img->d_w == 0)
                    g_layout_bad = 1;
                else
                    emit((int)img->d_w, (int)img->d_h, (int)img->bit_depth, hbd, pl, st);
            }
            if (npk >= percap) {
                percap = percap ? percap * 2 : 256;
                per    = realloc(per, sizeof(int) * (size_t)percap);
            }
            per[npk++] = g_frames - before;
            free(buf);
        }
        destroy(ctx);
    } else if (!strcmp(which, "dav1d")) {
        void *h = dlopen("libdav1d.so.6", RTLD_NOW);
        if (!h) {
            printf("{\"ok\":0,\"dec\":\"dav1d\",\"error\":\"libdav1d.so.6 not available\"}\n");
            return 2;
        }
        void (*defs)(void *)                   = dlsym(h, "dav1d_default_settings");
        int (*open_)(void **, const void *)    = dlsym(h, "dav1d_open");
        uint8_t *(*dcreate)(DData *, size_t)   = dlsym(h, "dav1d_data_create");
        int (*send)(void *, DData *)           = dlsym(h, "dav1d_send_data");
        int (*getp)(void *, DPic *)            = dlsym(h, "dav1d_get_picture");
        void (*unref)(DPic *)                  = dlsym(h, "dav1d_picture_unref");
        void (*close_)(void **)                = dlsym(h, "dav1d_close");
        if (!defs || !open_ || !dcreate || !send || !getp || !unref || !close_) {
            printf("{\"ok\":0,\"dec\":\"dav1d\",\"error\":\"symbols missing\"}\n");
            return 2;
        }
        int *s = calloc(1, 1024);
        defs(s);
        /* Dav1dSettings (1.0): n_threads, max_frame_delay, apply_grain, operating_point, all_layers, frame_size_limit */
        if (s[2] != 1 || s[4] != 1) { /* documented defaults: apply_grain=1, all_layers=1 */
            printf("{\"ok\":0,\"dec\":\"dav1d\",\"error\":\"settings layout self-check failed\"}\n");
            return 2;
        }
        s[0] = threads;
        s[1] = 1;
        s[2] = grain;
        s[4] = 0; /* output only the highest spatial layer of the operating point, as libaom does */
        void *c = NULL;
        if (open_(&c, s)) {
            printf("{\"ok\":0,\"dec\":\"dav1d\",\"error\":\"open failed\"}\n");
            return 2;
        }
        uint8_t *buf;
        uint32_t sz;
        int      idx = 0;
        while (read_packet(f, &buf, &sz) && fail_pkt < 0) {
            if (idx++ < from) {
                free(buf);
                continue;
            }
            int   before = g_frames;
            DData d;
            memset(&d, 0, sizeof d);
            uint8_t *p = dcreate(&d, sz);
            memcpy(p, buf, sz);
            free(buf);
            int r;
            do {
                r = send(c, &d);
                if (r < 0 && r != -EAGAIN) {
                    fail_pkt  = idx - 1;
                    fail_code = r;
                    break;
                }
                for (;;) {
                    DPic pic;
                    memset(&pic, 0, sizeof pic);
                    int g = getp(c, &pic);
                    if (g < 0) {
                        if (g != -EAGAIN) {
                            fail_pkt  = idx - 1;
                            fail_code = g;
                        }
                        break;
                    }
                    uint8_t * pl[3] = {pic.data[0], pic.data[1], pic.data[2]};
                    ptrdiff_t st[3] = {pic.stride[0], pic.stride[1], pic.stride[1]};
                    if (pic.layout != 1 /* I420 */)
                        g_layout_bad = 1;
                    else
                        emit(pic.w, pic.h, pic.bpc, pic.bpc > 8, pl, st);
                    unref(&pic);
                }
            } while (d.sz > 0 && fail_pkt < 0);
            if (npk >= percap) {
                percap = percap ? percap * 2 : 256;
                per    = realloc(per, sizeof(int) * (size_t)percap);
            }
            per[npk++] = g_frames - before;
        }
        if (fail_pkt < 0)
            for (;;) { /* drain */
                DPic pic;
                memset(&pic, 0, sizeof pic);
                int g = getp(c, &pic);
                if (g < 0)
                    break;
                uint8_t * pl[3] = {pic.data[0], pic.data[1], pic.data[2]};
                ptrdiff_t st[3] = {pic.stride[0], pic.stride[1], pic.stride[1]};
                emit(pic.w, pic.h, pic.bpc, pic.bpc > 8, pl, st);
                if (npk)
                    per[npk - 1]++;
                unref(&pic);
            }
        close_(&c);
    } else {
        fprintf(stderr, "unknown decoder %s\n", which);
        return 2;
    }
    if (g_out)
        fclose(g_out);
    if (g_layout_bad) {
        printf("{\"ok\":0,\"dec\":\"%s\",\"error\":\"image layout self-check failed\"}\n", which);
        return 2;
    }
    printf("{\"ok\":%d,\"dec\":\"%s\",\"frames\":%d,\"packets\":%d,\"w\":%d,\"h\":%d,\"bd\":%d,\"ivf_w\":%u,\"ivf_h\":%u,"
           "\"fail_packet\":%d,\"fail_code\":%d,\"per_packet\":[",
           fail_pkt < 0, which, g_frames, npk, g_w, g_h, g_bd, g_ivf_w, g_ivf_h, fail_pkt, fail_code);
    for (int i = 0; i < npk; i++) printf("%s%d", i ? "," : "", per[i]);
    printf("]}\n");
    return fail_pkt < 0 ? 0 : 1;
}
