/* ecrt - entropy coder round trip (property C25).
 *
 * White-box harness: the REAL writer (Source/Lib/Common/Codec/EbBitstreamUnit.{c,h}: aom_start_encode,
 * aom_write_symbol / aom_write_cdf / aom_write / aom_write_literal, svt_od_ec_encode_bool_q15,
 * svt_od_ec_enc_init/done/tell/clear, update_cdf) against the REAL reader of the decoder
 * (Source/Lib/Decoder/Codec/EbDecBitReader.h + EbDecBitstreamUnit.h: svt_reader_init, svt_read_symbol,
 * svt_read_cdf, svt_read, svt_read_literal, od_ec_decode_bool_q15, dec_update_cdf; header-inline code).
 *
 * Oracle per sequence of operations (symbol with a CDF of 2..16 symbols | bool with 8-bit probability |
 * bool with Q15 probability | literal of n bits), with and without CDF adaptation:
 *   - decoded value == written value for every operation                          (kind roundtrip)
 *   - reader-side CDF == writer-side CDF after every symbol, and all tables at the end (kind cdf-divergence)
 *   - svt_od_ec_enc_tell never decreases while encoding and no encoder error       (kind tell-decreased, encoder-error)
 *   - at done: nbytes <= ceil(tell / 8)                                            (kind tell-underreports)
 * The reader is given a heap copy of exactly nbytes bytes so that ASan sees any over-read.
 *
 * Modes (all deterministic functions of their arguments):
 *   ecrt exh  <alphabet N|W> <maxlen> <adapt 0|1> <var -1|0..3> <part> <nparts>
 *   ecrt one  <alphabet N|W> <adapt> <var 0..3> <i0,i1,...|->            replay of one exhaustive sequence
 *   ecrt rand <seed> <nseq> <minlen> <maxlen> <adapt> <var -1|0..3> <profile -1|0..3>
 *   ecrt rand1 <bankseed> <seqseed> <len> <adapt> <var> <profile>        replay of one random sequence
 * var: 0 direct od_ec init size 0, 1 direct size 2, 2 direct size 1024, 3 aom_start_encode/aom_stop_encode (62025)
 * profile: 0 uniform symbols, 1 symbols drawn from their CDF, 2 runs of the most probable symbol then an
 *          improbable one, 3 target code word (symbols obtained by decoding 'b 00^k 01': long carry chains)
 * Output: "FAIL kind=... " lines (first failure of a sequence, replay arguments included), "STAT k=v" lines.
 * Exit 0 no failure, 1 failures, 2 harness problem.
 */
#include "vcommon.h"
#include <limits.h>
#include <assert.h>
#include <malloc.h>
#include "EbDefinitions.h"
#include "EbBitstreamUnit.h"
#include "EbDecBitReader.h"

enum { OP_SYM = 0, OP_CDF, OP_BOOL, OP_BOOLQ, OP_LIT, OP_KINDS };
static const char *const op_names[OP_KINDS] = {"sym", "cdf", "bool", "boolq15", "lit"};

typedef struct {
    uint8_t  type;
    uint8_t  ctx; /* OP_SYM / OP_CDF: context index */
    uint16_t par; /* OP_BOOL: prob 1..255; OP_BOOLQ: f 1..32767; OP_LIT: bits 1..31 */
    uint32_t val;
} Op;

#define MAXCTX 128
#define CDFLEN 18
typedef struct {
    int        nctx;
    uint8_t    nsy[MAXCTX];
    AomCdfProb cdf[MAXCTX][CDFLEN];
} Bank;

static void bank_copy(Bank *d, const Bank *s) {
    d->nctx = s->nctx;
    memcpy(d->nsy, s->nsy, (size_t)s->nctx);
    memcpy(d->cdf, s->cdf, (size_t)s->nctx * sizeof(s->cdf[0]));
}

/* valid AV1 inverse CDF: 32768-based, strictly decreasing, every symbol has non-zero probability, last entry 0,
 * then the adaptation counter (0..32) */
static int cdf_valid(const AomCdfProb *c, int n) {
    if (n < 2 || n > 16)
        return 0;
    if (c[0] > 32767 || c[n - 1] != 0 || c[n] > 32)
        return 0;
    for (int i = 1; i < n; i++)
        if (c[i] >= c[i - 1])
            return 0;
    return 1;
}

/* ------------------------------------------------------------------ statistics */
static struct {
    uint64_t seqs, ops[OP_KINDS], lit_bits, bytes, maxlen, maxbytes;
    uint64_t carry_events, carry_seqs, max_chain;
    uint64_t grow_precarry, grow_buf, grow_api, tell_eq, tell_slack, cdf_updates, cdf_compares;
    uint64_t var_used[4], len0, len1;
    uint64_t fails, fail_lines;
    uint8_t  ctx_used[MAXCTX];
} S;

/* ------------------------------------------------------------------ one sequence */
static Bank g_w, g_w2, g_r;

typedef struct {
    char     kind[32];
    char     optype[16];
    long     op;
    char     detail[200];
} Fail;

static uint32_t var_init_size(int var) { return var == 0 ? 0u : var == 1 ? 2u : 1024u; }

static int run_seq(const Bank *init, const Op *ops, size_t n, int adapt, int var, Fail *f) {
    AomWriter w;
    uint8_t * apibuf = NULL;
    uint8_t * rb     = NULL;
    uint32_t  nbytes = 0;
    int32_t   tell, t_prev;
    int       rc = 0;
    f->op        = -1;
    f->optype[0] = 0;
#define FAILX(k, i, ...)                                          \
    do {                                                          \
        snprintf(f->kind, sizeof(f->kind), "%s", k);              \
        f->op = (long)(i);                                        \
        if ((i) >= 0 && (size_t)(i) < n)                          \
            snprintf(f->optype, sizeof(f->optype), "%s", op_names[ops[i].type]); \
        else                                                      \
            snprintf(f->optype, sizeof(f->optype), "end");        \
        snprintf(f->detail, sizeof(f->detail), __VA_ARGS__);      \
        rc = 1;                                                   \
        goto done;                                                \
    } while (0)

    bank_copy(&g_w, init);
    memset(&w, 0, sizeof(w));
    w.allow_update_cdf = (uint8_t)adapt;
    if (var == 3) {
        /* capacity: a symbol costs < 16 bits (minimum probability 4/65536), a literal bit 1 bit */
        size_t bits = 64;
        for (size_t i = 0; i < n; i++) bits += ops[i].type == OP_LIT ? ops[i].par + 1u : 16u;
        apibuf = (uint8_t *)malloc(bits / 8 + 16);
        if (!apibuf) {
            fprintf(stderr, "HARNESS alloc\n");
            exit(2);
        }
        aom_start_encode(&w, apibuf);
    } else
        svt_od_ec_enc_init(&w.ec, var_init_size(var));
    if (w.ec.error) {
        fprintf(stderr, "HARNESS encoder init allocation failed\n");
        exit(2);
    }
    t_prev = svt_od_ec_enc_tell(&w.ec);
    for (size_t i = 0; i < n; i++) {
        const Op *o = &ops[i];
        switch (o->type) {
        case OP_SYM: aom_write_symbol(&w, (int32_t)o->val, g_w.cdf[o->ctx], g_w.nsy[o->ctx]); break;
        case OP_CDF: aom_write_cdf(&w, (int32_t)o->val, g_w.cdf[o->ctx], g_w.nsy[o->ctx]); break;
        case OP_BOOL: aom_write(&w, (int32_t)o->val, o->par); break;
        case OP_BOOLQ: svt_od_ec_encode_bool_q15(&w.ec, (int32_t)o->val, o->par); break;
        case OP_LIT: aom_write_literal(&w, (int32_t)o->val, o->par); break;
        }
        if (w.ec.error)
            FAILX("encoder-error", i, "error flag set after op (offs=%u)", w.ec.offs);
        tell = svt_od_ec_enc_tell(&w.ec);
        if (tell < t_prev)
            FAILX("tell-decreased", i, "tell %d after %d", tell, t_prev);
        t_prev = tell;
    }
    /* ---- finish */
    if (var == 3) {
        tell   = aom_stop_encode(&w); /* calls done, tell, copies into apibuf, clears */
        nbytes = w.pos;
        if (nbytes == 0)
            FAILX("encoder-error", n, "aom_stop_encode produced no byte");
        rb = (uint8_t *)malloc(nbytes);
        memcpy(rb, apibuf, nbytes);
        S.grow_api += nbytes > 62025; /* the writer's own 62025-entry buffers had to grow */
    } else {
        uint32_t st0 = w.ec.storage, ps0 = var_init_size(var);
        uint8_t *out;
        tell = svt_od_ec_enc_tell(&w.ec);
        out  = svt_od_ec_enc_done(&w.ec, &nbytes);
        if (!out || w.ec.error || nbytes == 0) {
            svt_od_ec_enc_clear(&w.ec);
            FAILX("encoder-error", n, "svt_od_ec_enc_done returned %s nbytes=%u", out ? "buffer" : "NULL", nbytes);
        }
        rb = (uint8_t *)malloc(nbytes);
        memcpy(rb, out, nbytes);
        /* carries resolved by done(): entries of the pre-carry buffer hold 8 bits + a carry flag */
        {
            uint64_t ev = 0, run = 0, mx = 0;
            unsigned c = 0;
            for (uint32_t k = nbytes; k-- > 0;) {
                unsigned v = w.ec.precarry_buf[k] + c;
                c          = v >> 8;
                if (c) {
                    ev++;
                    if (++run > mx)
                        mx = run;
                } else
                    run = 0;
            }
            S.carry_events += ev;
            S.carry_seqs += ev != 0;
            if (mx > S.max_chain)
                S.max_chain = mx;
        }
        S.grow_precarry += w.ec.precarry_storage > ps0;
        S.grow_buf += w.ec.storage > st0;
        svt_od_ec_enc_clear(&w.ec);
    }
    if ((int64_t)nbytes > ((int64_t)tell + 7) / 8)
        FAILX("tell-underreports", n, "done emitted %u bytes but tell=%d bits (ceil %d bytes)", nbytes, tell,
              (tell + 7) / 8);
    if ((int64_t)nbytes == ((int64_t)tell + 7) / 8)
        S.tell_eq++;
    else
        S.tell_slack++;
    /* ---- read back */
    {
        SvtReader r;
        memset(&r, 0, sizeof(r));
        bank_copy(&g_r, init);
        bank_copy(&g_w2, init);
        if (svt_reader_init(&r, rb, nbytes))
            FAILX("roundtrip", -1, "svt_reader_init rejected the buffer");
        r.allow_update_cdf = (uint8_t)adapt;
        for (size_t i = 0; i < n; i++) {
            const Op *o = &ops[i];
            long      got;
            int       ns;
            switch (o->type) {
            case OP_SYM:
                ns  = g_r.nsy[o->ctx];
                got = svt_read_symbol(&r, g_r.cdf[o->ctx], ns, 0);
                if (got != (long)o->val)
                    FAILX("roundtrip", i, "ctx %d nsyms %d wrote %u read %ld", o->ctx, ns, o->val, got);
                if (adapt) {
                    update_cdf(g_w2.cdf[o->ctx], (int32_t)o->val, ns); /* what aom_write_symbol did */
                    S.cdf_updates++;
                }
                S.cdf_compares++;
                if (memcmp(g_w2.cdf[o->ctx], g_r.cdf[o->ctx], (size_t)(ns + 1) * sizeof(AomCdfProb))) {
                    int j = 0;
                    while (g_w2.cdf[o->ctx][j] == g_r.cdf[o->ctx][j]) j++;
                    FAILX("cdf-divergence", i, "ctx %d nsyms %d entry %d writer %u reader %u", o->ctx, ns, j,
                          g_w2.cdf[o->ctx][j], g_r.cdf[o->ctx][j]);
                }
                break;
            case OP_CDF:
                ns  = g_r.nsy[o->ctx];
                got = svt_read_cdf(&r, g_r.cdf[o->ctx], ns, 0);
                if (got != (long)o->val)
                    FAILX("roundtrip", i, "ctx %d nsyms %d wrote %u read %ld", o->ctx, ns, o->val, got);
                break;
            case OP_BOOL:
                got = svt_read(&r, o->par, 0);
                if (got != (long)o->val)
                    FAILX("roundtrip", i, "prob %u wrote %u read %ld", o->par, o->val, got);
                break;
            case OP_BOOLQ:
                got = od_ec_decode_bool_q15(&r.ec, o->par);
                if (got != (long)o->val)
                    FAILX("roundtrip", i, "f %u wrote %u read %ld", o->par, o->val, got);
                break;
            case OP_LIT:
                got = svt_read_literal(&r, o->par, 0);
                if (got != (long)o->val)
                    FAILX("roundtrip", i, "bits %u wrote %u read %ld", o->par, o->val, got);
                break;
            }
        }
        for (int c = 0; c < init->nctx; c++) {
            size_t sz = (size_t)(init->nsy[c] + 1) * sizeof(AomCdfProb);
            if (memcmp(g_w.cdf[c], g_w2.cdf[c], sz)) {
                fprintf(stderr, "HARNESS writer CDF replay differs from the writer's own tables (ctx %d)\n", c);
                exit(2);
            }
            if (memcmp(g_w.cdf[c], g_r.cdf[c], sz))
                FAILX("cdf-divergence", n, "final tables differ, ctx %d", c);
        }
    }
    /* ---- evidence */
    S.seqs++;
    for (size_t i = 0; i < n; i++) {
        S.ops[ops[i].type]++;
        if (ops[i].type == OP_LIT)
            S.lit_bits += ops[i].par;
        if (ops[i].type <= OP_CDF)
            S.ctx_used[ops[i].ctx] = 1;
    }
    S.bytes += nbytes;
    if (n > S.maxlen)
        S.maxlen = n;
    if (nbytes > S.maxbytes)
        S.maxbytes = nbytes;
    S.var_used[var]++;
    S.len0 += n == 0;
    S.len1 += n == 1;
done:
    free(rb);
    free(apibuf);
    return rc;
#undef FAILX
}

static void report_fail(const Fail *f, int adapt, int var, const char *replay) {
    S.fails++;
    if (S.fail_lines < 12) {
        S.fail_lines++;
        printf("FAIL kind=%s optype=%s adapt=%d var=%d op=%ld detail=\"%s\" replay=\"%s\"\n", f->kind, f->optype, adapt,
               var, f->op, f->detail, replay);
        fflush(stdout);
    }
}

/* ------------------------------------------------------------------ exhaustive alphabets */
static Bank g_ebank;
static Op   g_alpha[128];
static int  g_nalpha;

static int ebank_add(int n, const int *v) {
    int c           = g_ebank.nctx++;
    g_ebank.nsy[c] = (uint8_t)n;
    memset(g_ebank.cdf[c], 0, sizeof(g_ebank.cdf[c]));
    for (int i = 0; i < n - 1; i++) g_ebank.cdf[c][i] = (AomCdfProb)v[i];
    if (!cdf_valid(g_ebank.cdf[c], n)) {
        fprintf(stderr, "HARNESS invalid CDF in the exhaustive bank (ctx %d)\n", c);
        exit(2);
    }
    return c;
}
static void alpha_add(int type, int ctx, int par, uint32_t val) {
    Op *o   = &g_alpha[g_nalpha++];
    o->type = (uint8_t)type;
    o->ctx  = (uint8_t)ctx;
    o->par  = (uint16_t)par;
    o->val  = val;
}

static void build_alphabet(int wide) {
    int v[16];
    g_ebank.nctx = 0;
    g_nalpha     = 0;
    /* c0 even binary */
    v[0]   = 16384;
    int c0 = ebank_add(2, v);
    /* c1: symbol 0 has the smallest legal probability 1/32768 */
    v[0]   = 32767;
    int c1 = ebank_add(2, v);
    /* c2: symbol 1 has probability 1/32768 */
    v[0]   = 1;
    int c2 = ebank_add(2, v);
    /* c3 */
    v[0] = 2, v[1] = 1;
    int c3 = ebank_add(3, v);
    /* c4: last symbol near-certain */
    v[0] = 32767, v[1] = 32766, v[2] = 32765;
    int c4 = ebank_add(4, v);
    /* c5: uniform 16 */
    for (int i = 0; i < 15; i++) v[i] = 32768 - 2048 * (i + 1);
    int c5 = ebank_add(16, v);
    /* c6: 16 symbols, first near-certain, every other one 1/32768 */
    for (int i = 0; i < 15; i++) v[i] = 15 - i;
    int c6 = ebank_add(16, v);
    /* c7: 16 symbols, last near-certain */
    for (int i = 0; i < 15; i++) v[i] = 32767 - i;
    int c7 = ebank_add(16, v);
    /* c8: geometric */
    for (int i = 0; i < 7; i++) v[i] = 16384 >> i;
    int c8 = ebank_add(8, v);
    /* c9: entries that only differ below the EC_PROB_SHIFT precision */
    v[0] = 32000, v[1] = 31999, v[2] = 31998, v[3] = 31997;
    int c9 = ebank_add(5, v);
    /* c10: 13 symbols, irregular */
    {
        static const int t[12] = {32700, 31000, 30999, 25000, 24936, 16385, 16383, 9000, 4097, 4095, 64, 63};
        for (int i = 0; i < 12; i++) v[i] = t[i];
    }
    int c10 = ebank_add(13, v);
    if (!wide) {
        alpha_add(OP_SYM, c0, 0, 0), alpha_add(OP_SYM, c0, 0, 1);
        alpha_add(OP_SYM, c1, 0, 0), alpha_add(OP_SYM, c1, 0, 1);
        alpha_add(OP_SYM, c2, 0, 0), alpha_add(OP_SYM, c2, 0, 1);
        alpha_add(OP_SYM, c3, 0, 0), alpha_add(OP_SYM, c3, 0, 2);
        alpha_add(OP_SYM, c4, 0, 0), alpha_add(OP_SYM, c4, 0, 3);
        alpha_add(OP_SYM, c6, 0, 0), alpha_add(OP_SYM, c6, 0, 15);
        alpha_add(OP_SYM, c7, 0, 0), alpha_add(OP_SYM, c7, 0, 15);
        alpha_add(OP_SYM, c5, 0, 7);
        alpha_add(OP_BOOL, 0, 1, 0), alpha_add(OP_BOOL, 0, 1, 1);
        alpha_add(OP_BOOL, 0, 255, 0), alpha_add(OP_BOOL, 0, 255, 1);
        alpha_add(OP_BOOLQ, 0, 1, 1), alpha_add(OP_BOOLQ, 0, 32767, 0);
        alpha_add(OP_LIT, 0, 8, 0xFF);
        return;
    }
    for (int s = 0; s < 2; s++) alpha_add(OP_SYM, c0, 0, s), alpha_add(OP_SYM, c1, 0, s), alpha_add(OP_SYM, c2, 0, s);
    for (int s = 0; s < 3; s++) alpha_add(OP_SYM, c3, 0, s);
    for (int s = 0; s < 4; s++) alpha_add(OP_SYM, c4, 0, s);
    alpha_add(OP_SYM, c5, 0, 0), alpha_add(OP_SYM, c5, 0, 7), alpha_add(OP_SYM, c5, 0, 15);
    alpha_add(OP_SYM, c6, 0, 0), alpha_add(OP_SYM, c6, 0, 1), alpha_add(OP_SYM, c6, 0, 14), alpha_add(OP_SYM, c6, 0, 15);
    alpha_add(OP_SYM, c7, 0, 0), alpha_add(OP_SYM, c7, 0, 1), alpha_add(OP_SYM, c7, 0, 14), alpha_add(OP_SYM, c7, 0, 15);
    alpha_add(OP_SYM, c8, 0, 0), alpha_add(OP_SYM, c8, 0, 3), alpha_add(OP_SYM, c8, 0, 7);
    for (int s = 0; s < 5; s++) alpha_add(OP_SYM, c9, 0, s);
    alpha_add(OP_SYM, c10, 0, 0), alpha_add(OP_SYM, c10, 0, 6), alpha_add(OP_SYM, c10, 0, 12);
    alpha_add(OP_CDF, c10, 0, 2), alpha_add(OP_CDF, c7, 0, 15);
    {
        static const int pr[6] = {1, 2, 64, 128, 254, 255};
        for (int i = 0; i < 6; i++) alpha_add(OP_BOOL, 0, pr[i], 0), alpha_add(OP_BOOL, 0, pr[i], 1);
        static const int fq[6] = {1, 63, 64, 16384, 32704, 32767};
        for (int i = 0; i < 6; i++) alpha_add(OP_BOOLQ, 0, fq[i], 0), alpha_add(OP_BOOLQ, 0, fq[i], 1);
    }
    alpha_add(OP_LIT, 0, 1, 1), alpha_add(OP_LIT, 0, 3, 5), alpha_add(OP_LIT, 0, 8, 0xFF), alpha_add(OP_LIT, 0, 8, 0);
    alpha_add(OP_LIT, 0, 16, 0xA5A5), alpha_add(OP_LIT, 0, 31, 0x7FFFFFFF);
}

static void exh_replay_string(char *buf, size_t sz, char alpha, int adapt, int var, const int *dig, int len) {
    int p = snprintf(buf, sz, "one %c %d %d ", alpha, adapt, var);
    if (len == 0)
        snprintf(buf + p, sz - (size_t)p, "-");
    for (int i = 0; i < len && (size_t)p < sz - 8; i++) p += snprintf(buf + p, sz - (size_t)p, i ? ",%d" : "%d", dig[i]);
}

static int mode_exh(char alpha, int maxlen, int adapt, int var, uint64_t part, uint64_t nparts) {
    Op   ops[16];
    int  dig[16];
    Fail f;
    char rp[256];
    if (maxlen > 12)
        maxlen = 12;
    build_alphabet(alpha == 'W');
    for (int len = 0; len <= maxlen; len++) {
        uint64_t total = 1;
        for (int i = 0; i < len; i++) total *= (uint64_t)g_nalpha;
        for (uint64_t idx = part; idx < total; idx += nparts) {
            uint64_t x = idx;
            for (int i = len - 1; i >= 0; i--) {
                dig[i] = (int)(x % (uint64_t)g_nalpha);
                x /= (uint64_t)g_nalpha;
                ops[i] = g_alpha[dig[i]];
            }
            int v = var >= 0 ? var : (int)((idx + (uint64_t)len) & 3);
            if (run_seq(&g_ebank, ops, (size_t)len, adapt, v, &f)) {
                exh_replay_string(rp, sizeof(rp), alpha, adapt, v, dig, len);
                report_fail(&f, adapt, v, rp);
            }
        }
    }
    printf("STAT alphabet_ops=%d\nSTAT cdf_tables=%d\n", g_nalpha, g_ebank.nctx);
    return 0;
}

static int mode_one(char alpha, int adapt, int var, const char *list) {
    Op   ops[64];
    int  dig[64], len = 0;
    Fail f;
    char rp[256];
    build_alphabet(alpha == 'W');
    if (strcmp(list, "-")) {
        const char *p = list;
        while (*p && len < 64) {
            int d = atoi(p);
            if (d < 0 || d >= g_nalpha) {
                fprintf(stderr, "HARNESS bad op index %d\n", d);
                return 2;
            }
            dig[len] = d;
            ops[len++] = g_alpha[d];
            p = strchr(p, ',');
            if (!p)
                break;
            p++;
        }
    }
    if (run_seq(&g_ebank, ops, (size_t)len, adapt, var, &f)) {
        exh_replay_string(rp, sizeof(rp), alpha, adapt, var, dig, len);
        report_fail(&f, adapt, var, rp);
    }
    printf("STAT alphabet_ops=%d\nSTAT cdf_tables=%d\n", g_nalpha, g_ebank.nctx);
    return 0;
}

/* ------------------------------------------------------------------ random banks and sequences */
static int cmp_desc(const void *a, const void *b) { return *(const int *)b - *(const int *)a; }

static void distinct_cuts(VRng *r, int *v, int k, int lo, int hi) {
    /* k distinct values in [lo,hi], sorted descending (hi - lo + 1 >= k) */
    for (;;) {
        for (int i = 0; i < k; i++) v[i] = lo + (int)v_rng_below(r, (uint32_t)(hi - lo + 1));
        qsort(v, (size_t)k, sizeof(int), cmp_desc);
        int ok = 1;
        for (int i = 1; i < k; i++)
            if (v[i] == v[i - 1])
                ok = 0;
        if (ok)
            return;
    }
}

static void gen_cdf(VRng *r, AomCdfProb *c, int n, int shape) {
    int v[16];
    int k = n - 1;
    memset(c, 0, CDFLEN * sizeof(AomCdfProb));
    switch (shape) {
    default:
    case 0: distinct_cuts(r, v, k, 1, 32767); break;
    case 1: distinct_cuts(r, v, k, 32768 - 4 * n, 32767); break; /* last symbol near-certain */
    case 2: distinct_cuts(r, v, k, 1, 4 * n); break; /* first symbol near-certain */
    case 3: { /* adjacent run */
        int base = k + (int)v_rng_below(r, (uint32_t)(32767 - k + 1));
        for (int i = 0; i < k; i++) v[i] = base - i;
        break;
    }
    case 4: { /* one near-certain symbol j, all others 1/32768 */
        int j = (int)v_rng_below(r, (uint32_t)n);
        for (int i = 0; i < k; i++) v[i] = i < j ? 32767 - i : k - i;
        break;
    }
    case 5: { /* cuts on and next to multiples of 64 (EC_PROB_SHIFT boundaries) */
        for (;;) {
            for (int i = 0; i < k; i++) {
                int x = 64 * (1 + (int)v_rng_below(r, 511)) + (int)v_rng_below(r, 3) - 1;
                v[i]  = x < 1 ? 1 : x > 32767 ? 32767 : x;
            }
            qsort(v, (size_t)k, sizeof(int), cmp_desc);
            int ok = 1;
            for (int i = 1; i < k; i++)
                if (v[i] == v[i - 1])
                    ok = 0;
            if (ok)
                break;
        }
        break;
    }
    }
    for (int i = 0; i < k; i++) c[i] = (AomCdfProb)v[i];
    c[n - 1] = 0;
    /* adaptation counter: 0 as at the start of a frame, sometimes any reachable value */
    c[n] = (AomCdfProb)(v_rng_below(r, 4) == 0 ? v_rng_below(r, 33) : 0);
}

static void gen_bank(Bank *b, uint64_t bankseed) {
    VRng r;
    v_rng_seed(&r, bankseed * 0x9E3779B1ull + 77);
    b->nctx = 96;
    for (int c = 0; c < b->nctx; c++) {
        int n     = c < 15 ? c + 2 : 2 + (int)v_rng_below(&r, 15); /* every alphabet size 2..16 present */
        b->nsy[c] = (uint8_t)n;
        gen_cdf(&r, b->cdf[c], n, c < 15 ? 0 : (int)v_rng_below(&r, 6));
        if (!cdf_valid(b->cdf[c], n)) {
            fprintf(stderr, "HARNESS generated an invalid CDF\n");
            exit(2);
        }
    }
}

static int sym_prob(const AomCdfProb *c, int s) { return (s ? c[s - 1] : 32768) - c[s]; }

static uint32_t sym_by_dist(VRng *r, const AomCdfProb *c, int n) {
    int x = (int)v_rng_below(r, 32768);
    for (int s = 0; s < n; s++)
        if (32768 - c[s] > x)
            return (uint32_t)s;
    return (uint32_t)(n - 1);
}

static void gen_target(VRng *r, uint8_t *t, size_t *len, size_t want_ops) {
    /* prefix (0..6 bytes) | b >= 1 | 00^k | 01 | tail: the interval straddles the ...FF|00... boundary for k bytes
     * and ends above it, so the encoder must carry through a chain of k 0xFF bytes */
    size_t k   = 1 + v_rng_below(r, (uint32_t)(want_ops / 6 + 2));
    size_t p   = 0;
    size_t pre = v_rng_below(r, 7);
    for (size_t i = 0; i < pre; i++) t[p++] = (uint8_t)v_rng_below(r, 256);
    t[p++] = (uint8_t)(1 + v_rng_below(r, 255));
    for (size_t i = 0; i < k; i++) t[p++] = 0;
    t[p++] = (uint8_t)(1u << v_rng_below(r, 8));
    for (size_t i = 0; i < 4; i++) t[p++] = (uint8_t)v_rng_below(r, 256);
    *len = p;
}

/* Generates the operations of one sequence; the generator follows the table evolution (real update_cdf) so that
 * profile 1/2 draw from the tables the writer will actually use. */
static void gen_ops(const Bank *init, VRng *r, Op *ops, size_t n, int adapt, int profile) {
    static Bank g;
    bank_copy(&g, init);
    int      nuse = (int)v_rng_below(r, 3);
    int      nctx = nuse == 0 ? 1 : nuse == 1 ? 4 : init->nctx;
    int      base = (int)v_rng_below(r, (uint32_t)(init->nctx - nctx + 1));
    SvtReader rd;
    uint8_t * tgt = NULL;
    if (profile == 3) {
        size_t tl;
        tgt = (uint8_t *)malloc(n / 6 + 32);
        gen_target(r, tgt, &tl, n);
        memset(&rd, 0, sizeof(rd));
        svt_reader_init(&rd, tgt, tl);
        rd.allow_update_cdf = (uint8_t)adapt;
    }
    size_t run_left = 0;
    int    run_ctx = 0, run_bool = 0;
    for (size_t i = 0; i < n; i++) {
        Op *     o = &ops[i];
        uint32_t t = v_rng_below(r, 100);
        memset(o, 0, sizeof(*o));
        if (profile == 2) {
            /* runs of the most probable symbol of one context (or of a near-certain bool), then an improbable one */
            if (run_left == 0) {
                run_left = 1 + v_rng_below(r, 1u << (1 + v_rng_below(r, 10)));
                run_ctx  = base + (int)v_rng_below(r, (uint32_t)nctx);
                run_bool = v_rng_below(r, 5) == 0;
            }
            run_left--;
            if (run_bool) {
                o->type = OP_BOOL;
                o->par  = (uint16_t)(run_ctx & 1 ? 255 : 1);
                o->val  = (o->par == 255) ? (run_left == 0) : (run_left != 0); /* prob = P(bit 0) * 256 */
            } else {
                const AomCdfProb *c  = g.cdf[run_ctx];
                int               ns = g.nsy[run_ctx], best = 0, worst = 0;
                for (int s = 1; s < ns; s++) {
                    if (sym_prob(c, s) > sym_prob(c, best))
                        best = s;
                    if (sym_prob(c, s) <= sym_prob(c, worst))
                        worst = s;
                }
                o->type = OP_SYM;
                o->ctx  = (uint8_t)run_ctx;
                o->val  = (uint32_t)(run_left == 0 ? worst : best);
                if (adapt)
                    update_cdf(g.cdf[run_ctx], (int32_t)o->val, ns);
            }
            continue;
        }
        if (t < 70) {
            o->type = (uint8_t)(t < 64 ? OP_SYM : OP_CDF);
            o->ctx  = (uint8_t)(base + (int)v_rng_below(r, (uint32_t)nctx));
        } else if (t < 80) {
            o->type = OP_BOOL;
            o->par  = (uint16_t)(1 + v_rng_below(r, 255));
        } else if (t < 90) {
            o->type = OP_BOOLQ;
            uint32_t q = v_rng_below(r, 4);
            o->par = (uint16_t)(q == 0 ? 1 + v_rng_below(r, 64) : q == 1 ? 32767 - v_rng_below(r, 64) : 1 + v_rng_below(r, 32767));
        } else {
            o->type = OP_LIT;
            o->par  = (uint16_t)(v_rng_below(r, 8) ? 1 + v_rng_below(r, 8) : 1 + v_rng_below(r, 31));
        }
        int ns = g.nsy[o->ctx];
        if (profile == 3) {
            switch (o->type) {
            case OP_SYM: o->val = (uint32_t)svt_read_symbol(&rd, g.cdf[o->ctx], ns, 0); break;
            case OP_CDF: o->val = (uint32_t)svt_read_cdf(&rd, g.cdf[o->ctx], ns, 0); break;
            case OP_BOOL: o->val = (uint32_t)svt_read(&rd, o->par, 0); break;
            case OP_BOOLQ: o->val = (uint32_t)od_ec_decode_bool_q15(&rd.ec, o->par); break;
            case OP_LIT: o->val = (uint32_t)svt_read_literal(&rd, o->par, 0); break;
            }
            /* keep the generated operation inside the legal domain whatever the reader returned */
            if (o->type <= OP_CDF && o->val >= (uint32_t)ns)
                o->val = (uint32_t)(ns - 1);
            if ((o->type == OP_BOOL || o->type == OP_BOOLQ) && o->val > 1)
                o->val = 1;
            if (o->type == OP_LIT)
                o->val &= (o->par >= 32 ? 0xFFFFFFFFu : ((1u << o->par) - 1u));
            continue;
        }
        switch (o->type) {
        case OP_SYM:
        case OP_CDF:
            o->val = profile == 1 ? sym_by_dist(r, g.cdf[o->ctx], ns) : v_rng_below(r, (uint32_t)ns);
            if (adapt && o->type == OP_SYM)
                update_cdf(g.cdf[o->ctx], (int32_t)o->val, ns);
            break;
        case OP_BOOL:
            /* aom_write(bit, prob): prob/256 is the probability of bit 0 */
            o->val = profile == 1 ? (v_rng_below(r, 256) >= o->par) : v_rng_below(r, 2);
            break;
        case OP_BOOLQ: o->val = profile == 1 ? (v_rng_below(r, 32768) < o->par) : v_rng_below(r, 2); break;
        case OP_LIT: o->val = (uint32_t)(v_rng_next(r) >> 20) & ((1u << o->par) - 1u); break;
        }
    }
    free(tgt);
}

static int rand_one(const Bank *bank, uint64_t bankseed, uint64_t seqseed, size_t len, int adapt, int var, int profile) {
    VRng r;
    Fail f;
    char rp[200];
    Op * ops = (Op *)malloc((len + 1) * sizeof(Op));
    if (!ops) {
        fprintf(stderr, "HARNESS alloc\n");
        exit(2);
    }
    v_rng_seed(&r, seqseed);
    gen_ops(bank, &r, ops, len, adapt, profile);
    int rc = run_seq(bank, ops, len, adapt, var, &f);
    if (rc) {
        snprintf(rp, sizeof(rp), "rand1 %llu %llu %zu %d %d %d", (unsigned long long)bankseed,
                 (unsigned long long)seqseed, len, adapt, var, profile);
        report_fail(&f, adapt, var, rp);
    }
    free(ops);
    return rc;
}

static int mode_rand(uint64_t seed, long nseq, size_t minlen, size_t maxlen, int adapt, int var, int profile) {
    static Bank bank;
    VRng        r;
    uint64_t    prof_used[4] = {0, 0, 0, 0};
    gen_bank(&bank, seed);
    v_rng_seed(&r, seed ^ 0xC25C25ull);
    for (long i = 0; i < nseq; i++) {
        uint64_t sub = v_rng_next(&r);
        size_t   len;
        if (maxlen <= minlen)
            len = minlen;
        else {
            /* log-uniform length in [minlen, maxlen] */
            double lo = (double)minlen + 1.0, hi = (double)maxlen + 1.0;
            double u  = (double)(v_rng_next(&r) >> 11) / (double)(1ull << 53);
            double x  = lo;
            /* lo * (hi/lo)^u without libm pow: repeated square-root-free approach via exp/log is fine here */
            x   = __builtin_exp(__builtin_log(lo) + u * (__builtin_log(hi) - __builtin_log(lo)));
            len = (size_t)x - 1;
            if (len < minlen)
                len = minlen;
            if (len > maxlen)
                len = maxlen;
        }
        int v = var >= 0 ? var : (int)v_rng_below(&r, 4);
        int p = profile >= 0 ? profile : (int)v_rng_below(&r, 4);
        prof_used[p]++;
        rand_one(&bank, seed, sub, len, adapt, v, p);
    }
    {
        /* distinct initial tables of the bank */
        int distinct = 0;
        for (int c = 0; c < bank.nctx; c++) {
            int dup = 0;
            for (int d = 0; d < c; d++)
                if (bank.nsy[d] == bank.nsy[c] && !memcmp(bank.cdf[d], bank.cdf[c], sizeof(bank.cdf[c])))
                    dup = 1;
            distinct += !dup;
        }
        printf("STAT cdf_tables=%d\n", distinct);
    }
    for (int p = 0; p < 4; p++) printf("STAT profile%d=%llu\n", p, (unsigned long long)prof_used[p]);
    return 0;
}

/* ------------------------------------------------------------------ main */
static void print_stats(void) {
    int ctx = 0;
    for (int c = 0; c < MAXCTX; c++) ctx += S.ctx_used[c];
#define P(k, v) printf("STAT %s=%llu\n", k, (unsigned long long)(v))
    P("sequences", S.seqs);
    for (int t = 0; t < OP_KINDS; t++) {
        char k[32];
        snprintf(k, sizeof(k), "ops_%s", op_names[t]);
        P(k, S.ops[t]);
    }
    P("lit_bits", S.lit_bits);
    P("bytes", S.bytes);
    P("max_len", S.maxlen);
    P("max_bytes", S.maxbytes);
    P("len0", S.len0);
    P("len1", S.len1);
    P("carry_events", S.carry_events);
    P("carry_seqs", S.carry_seqs);
    P("max_carry_chain", S.max_chain);
    P("grow_precarry", S.grow_precarry);
    P("grow_buf", S.grow_buf);
    P("grow_api", S.grow_api);
    P("tell_eq", S.tell_eq);
    P("tell_slack", S.tell_slack);
    P("cdf_updates", S.cdf_updates);
    P("cdf_compares", S.cdf_compares);
    P("ctx_used", ctx);
    for (int v = 0; v < 4; v++) {
        char k[32];
        snprintf(k, sizeof(k), "var%d", v);
        P(k, S.var_used[v]);
    }
    P("fails", S.fails);
#undef P
}

int main(int argc, char **argv) {
    int rc = 2;
    v_drop_sys_nice();
    /* aom_start_encode allocates 62025 + 124050 bytes per sequence: keep the heap instead of trimming it each time */
    mallopt(M_TRIM_THRESHOLD, 1 << 30);
    mallopt(M_MMAP_THRESHOLD, 1 << 30);
    if (argc >= 8 && !strcmp(argv[1], "exh"))
        rc = mode_exh(argv[2][0], atoi(argv[3]), atoi(argv[4]), atoi(argv[5]), strtoull(argv[6], 0, 10),
                      strtoull(argv[7], 0, 10));
    else if (argc >= 6 && !strcmp(argv[1], "one"))
        rc = mode_one(argv[2][0], atoi(argv[3]), atoi(argv[4]), argv[5]);
    else if (argc >= 9 && !strcmp(argv[1], "rand"))
        rc = mode_rand(strtoull(argv[2], 0, 10), atol(argv[3]), (size_t)strtoull(argv[4], 0, 10),
                       (size_t)strtoull(argv[5], 0, 10), atoi(argv[6]), atoi(argv[7]), atoi(argv[8]));
    else if (argc >= 8 && !strcmp(argv[1], "rand1")) {
        static Bank bank;
        gen_bank(&bank, strtoull(argv[2], 0, 10));
        rand_one(&bank, strtoull(argv[2], 0, 10), strtoull(argv[3], 0, 10), (size_t)strtoull(argv[4], 0, 10),
                 atoi(argv[5]), atoi(argv[6]), atoi(argv[7]));
        printf("STAT cdf_tables=%d\n", bank.nctx);
        rc = 0;
    } else {
        fprintf(stderr, "usage: see the header comment of ecrt.c\n");
        return 2;
    }
    if (rc == 2)
        return 2;
    print_stats();
    return S.fails ? 1 : 0;
}
