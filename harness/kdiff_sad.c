/* kdiff handlers: SAD, variance, sub-pixel variance, OBMC, sse.
 * Domains: 8-bit samples 0..255 (10-bit 0..1023 for highbd_10), any stride >= width, pointers
 * at any byte alignment (the encoder passes picture positions).  OBMC: wsrc = sample * weight with
 * weight in 0..64*64, mask in 0..64*64 (test/OBMCSadTest.cc; calc_target_weighted_pred). */
#include "kdiff.h"
#include "kdiff_sigs.h"

static const uint8_t *mk_u8(KdCtx *k, int w, int h, int *stride, int post) {
    *stride    = kstride(k, w, 1);
    int      o = kr_range(k, 0, 3) ? kr_range(k, 0, 63) : 0; /* unaligned start */
    /* blocks live inside padded pictures / 64-byte rows of larger buffers: a vector load that runs a
     * few bytes past the block's last row stays inside the allocation (32 bytes before, 64 after) */
    kpad(k, 32, 64);
    uint8_t *p = (uint8_t *)kb2(k, w, h, *stride, 1, 64, o, post);
    /* the `o` leading bytes are part of the allocation (picture data left of the block) */
    kfill2(k, p, w, h, *stride, 1, 0, 255);
    return p;
}
static uint16_t *mk_u16(KdCtx *k, int w, int h, int *stride, int maxv) {
    *stride     = kstride(k, w, 1);
    int       o = kr_range(k, 0, 3) ? kr_range(k, 0, 31) : 0;
    kpad(k, 32, 64);
    uint16_t *p = (uint16_t *)kb2(k, w, h, *stride, 2, 64, o, 0);
    kfill2(k, p, w, h, *stride, 2, 0, maxv);
    return p;
}

KDH(sad) {
    int w = P(0), h = P(1), ss, rs;
    const uint8_t *s = mk_u8(k, w, h, &ss, 0), *r = mk_u8(k, w, h, &rs, 0);
    ka(k, "w", w), ka(k, "h", h), ka(k, "src_stride", ss), ka(k, "ref_stride", rs);
    kcall(k);
    kret(k, KFN(k, sad)(s, ss, r, rs));
}

KDH(sad4d) {
    int            w = P(0), h = P(1), ss, rs;
    const uint8_t *s = mk_u8(k, w, h, &ss, 0);
    /* the four candidates live in one reference picture: same stride, different positions */
    rs            = kstride(k, w + 8, 1);
    int      rows = h + 8;
    uint8_t *pic  = (uint8_t *)kb2(k, w + 8, rows, rs, 1, 64, 0, 0);
    kfill2(k, pic, w + 8, rows, rs, 1, 0, 255);
    const uint8_t *refs[4];
    for (int i = 0; i < 4; i++) {
        int dx = kr_range(k, 0, 8), dy = kr_range(k, 0, 8);
        refs[i] = pic + dy * rs + dx;
        ka(k, "dx", dx), ka(k, "dy", dy);
    }
    uint32_t *out = (uint32_t *)kb(k, 4, 4, 16);
    ka(k, "w", w), ka(k, "h", h), ka(k, "src_stride", ss), ka(k, "ref_stride", rs);
    kcall(k);
    KFN(k, sad4d)(s, ss, refs, rs, out);
}

/* svt_nxm_sad_kernel / _sub_sampled(src, stride, ref, stride, height, width): called with the
 * dimensions of ME blocks (8..64 squares) and of AV1 blocks in MD, sub-sampled variant with
 * height/2 and doubled strides.  (The AVX2 helpers still carry HEVC-era widths 24/40/48/56 that read
 * 32/64-byte vectors; no caller produces them any more, so they are outside the domain.) */
KDH(nxm_sad) {
    int i = k->icase < 9 ? kr_range(k, 0, 21) : (k->icase % 22);
    int w = kd_bsizes[i][0], h = kd_bsizes[i][1], ss, rs;
    if (h >= 8 && kr_bool(k)) h >>= 1; /* sub-sampled rows */
    const uint8_t *s = mk_u8(k, w, h, &ss, 0), *r = mk_u8(k, w, h, &rs, 0);
    ka(k, "w", w), ka(k, "h", h), ka(k, "src_stride", ss), ka(k, "ref_stride", rs);
    kcall(k);
    kret(k, KFN(k, nxm_sad)(s, (uint32_t)ss, r, (uint32_t)rs, (uint32_t)h, (uint32_t)w));
}

KDH(sad16b) {
    static const int sz[][2] = {{4, 4},   {4, 8},   {8, 4},   {8, 8},   {8, 16},  {16, 8},  {16, 16}, {16, 32}, {32, 16}, {32, 32}, {32, 64},
                                {64, 32}, {64, 64}, {4, 16},  {16, 4},  {8, 32},  {32, 8},  {16, 64}, {64, 16}, {128, 128}, {128, 64}, {64, 128}};
    int              n = (int)(sizeof(sz) / sizeof(sz[0]));
    int              i = k->icase < 9 ? kr_range(k, 0, n - 1) : (k->icase % n);
    int              w = sz[i][0], h = sz[i][1], ss, rs;
    int              bd = kr_bool(k) ? 10 : 8;
    uint16_t        *s = mk_u16(k, w, h, &ss, (1 << bd) - 1), *r = mk_u16(k, w, h, &rs, (1 << bd) - 1);
    ka(k, "w", w), ka(k, "h", h), ka(k, "src_stride", ss), ka(k, "ref_stride", rs), ka(k, "bd", bd);
    kcall(k);
    kret(k, KFN(k, sad16b)(s, (uint32_t)ss, r, (uint32_t)rs, (uint32_t)h, (uint32_t)w));
}

KDH(variance) {
    int          w = P(0), h = P(1), bd = P(2), ss, rs;
    unsigned int *sse = (unsigned int *)kb(k, 1, 4, 4);
    *sse              = 0x5a5a5a5a;
    ka(k, "w", w), ka(k, "h", h), ka(k, "bd", bd);
    if (bd == 8) {
        const uint8_t *s = mk_u8(k, w, h, &ss, 0), *r = mk_u8(k, w, h, &rs, 0);
        ka(k, "src_stride", ss), ka(k, "ref_stride", rs);
        kcall(k);
        kret(k, KFN(k, variance)(s, ss, r, rs, sse));
    } else if (bd == 10) {
        uint16_t *s = mk_u16(k, w, h, &ss, 1023), *r = mk_u16(k, w, h, &rs, 1023);
        ka(k, "src_stride", ss), ka(k, "ref_stride", rs);
        kcall(k);
        kret(k, KFN(k, variance)(CONVERT_TO_BYTEPTR(s), ss, CONVERT_TO_BYTEPTR(r), rs, sse));
    } else { /* 108: svt_aom_highbd_8_mse16x16 - 16-bit containers holding 8-bit data, void return */
        uint16_t *s = mk_u16(k, w, h, &ss, 255), *r = mk_u16(k, w, h, &rs, 255);
        ka(k, "src_stride", ss), ka(k, "ref_stride", rs);
        kcall(k);
        KFN(k, mse_void)(CONVERT_TO_BYTEPTR(s), ss, CONVERT_TO_BYTEPTR(r), rs, sse);
    }
}

KDH(var_hbd_wh) {
    /* variance_highbd(a, stride, b, stride, w, h, &sse): temporal filtering on 16-bit pictures; the
     * only call sites pass 16x16 and 32x32 and the AVX2 kernel asserts w == h in {16, 32} */
    static const int sz[][2] = {{16, 16}, {32, 32}};
    int              n = (int)(sizeof(sz) / sizeof(sz[0]));
    int              i = k->icase % n;
    int              w = sz[i][0], h = sz[i][1], ss, rs;
    uint16_t        *s = mk_u16(k, w, h, &ss, 1023), *r = mk_u16(k, w, h, &rs, 1023);
    uint32_t        *sse = (uint32_t *)kb(k, 1, 4, 4);
    ka(k, "w", w), ka(k, "h", h), ka(k, "src_stride", ss), ka(k, "ref_stride", rs);
    kcall(k);
    kret(k, KFN(k, var_hbd_wh)(s, ss, r, rs, w, h, sse));
}

KDH(subpel_var) {
    int w = P(0), h = P(1), ss, rs;
    /* bilinear: reads (w+1) x (h+1) source samples */
    ss            = kstride(k, w + 1, 1);
    int      o    = kr_range(k, 0, 63);
    kpad(k, 32, 64);
    uint8_t *s    = (uint8_t *)kb2(k, w + 1, h + 1, ss, 1, 64, o, 0);
    kfill2(k, s, w + 1, h + 1, ss, 1, 0, 255);
    const uint8_t *r   = mk_u8(k, w, h, &rs, 0);
    uint32_t      *sse = (uint32_t *)kb(k, 1, 4, 4);
    int            xo = k->icase >= 9 && k->icase < 9 + 64 ? ((k->icase - 9) & 7) : kr_range(k, 0, 7);
    int            yo = k->icase >= 9 && k->icase < 9 + 64 ? ((k->icase - 9) >> 3) : kr_range(k, 0, 7);
    ka(k, "w", w), ka(k, "h", h), ka(k, "src_stride", ss), ka(k, "ref_stride", rs), ka(k, "xoffset", xo), ka(k, "yoffset", yo);
    kcall(k);
    kret(k, KFN(k, subpel_var)(s, ss, xo, yo, r, rs, sse));
}

static void mk_obmc(KdCtx *k, int w, int h, int32_t **wsrc, int32_t **mask) {
    /* wsrc = sample(0..255) * weight(0..4096); mask = 0..4096; contiguous w*h, 32-byte aligned */
    size_t   n   = (size_t)w * (size_t)h;
    int32_t *ws  = (int32_t *)kb(k, n, 4, 32);
    int32_t *m   = (int32_t *)kb(k, n, 4, 32);
    int32_t *tmp = (int32_t *)kb(k, n, 4, 32);
    kfill(k, ws, n, 4, 0, 255);
    kfill(k, tmp, n, 4, 0, 4096);
    kfill(k, m, n, 4, 0, 4096);
    for (size_t i = 0; i < n; i++) ws[i] *= tmp[i];
    *wsrc = ws;
    *mask = m;
}

KDH(obmc_sad) {
    int            w = P(0), h = P(1), ps;
    const uint8_t *pre = mk_u8(k, w, h, &ps, 0);
    int32_t       *ws, *m;
    mk_obmc(k, w, h, &ws, &m);
    ka(k, "w", w), ka(k, "h", h), ka(k, "pre_stride", ps);
    kcall(k);
    kret(k, KFN(k, obmc_sad)(pre, ps, ws, m));
}

KDH(obmc_var) {
    int            w = P(0), h = P(1), ps;
    const uint8_t *pre = mk_u8(k, w, h, &ps, 0);
    int32_t       *ws, *m;
    mk_obmc(k, w, h, &ws, &m);
    unsigned int *sse = (unsigned int *)kb(k, 1, 4, 4);
    ka(k, "w", w), ka(k, "h", h), ka(k, "pre_stride", ps);
    kcall(k);
    kret(k, KFN(k, obmc_var)(pre, ps, ws, m, sse));
}

KDH(obmc_subpel_var) {
    int      w = P(0), h = P(1);
    int      ps  = kstride(k, w + 1, 1);
    int      o   = kr_range(k, 0, 63);
    kpad(k, 32, 64);
    uint8_t *pre = (uint8_t *)kb2(k, w + 1, h + 1, ps, 1, 64, o, 0);
    kfill2(k, pre, w + 1, h + 1, ps, 1, 0, 255);
    int32_t *ws, *m;
    mk_obmc(k, w, h, &ws, &m);
    unsigned int *sse = (unsigned int *)kb(k, 1, 4, 4);
    int           xo = k->icase >= 9 && k->icase < 9 + 64 ? ((k->icase - 9) & 7) : kr_range(k, 0, 7);
    int           yo = k->icase >= 9 && k->icase < 9 + 64 ? ((k->icase - 9) >> 3) : kr_range(k, 0, 7);
    ka(k, "w", w), ka(k, "h", h), ka(k, "pre_stride", ps), ka(k, "xoffset", xo), ka(k, "yoffset", yo);
    kcall(k);
    kret(k, KFN(k, obmc_subpel_var)(pre, ps, xo, yo, ws, m, sse));
}

/* svt_aom_sse / svt_aom_highbd_sse(a, stride, b, stride, width, height): called by
 * model_rd_for_sb_with_curvfit with the dimensions of an AV1 block (the AVX2 kernels process 4 rows
 * at a time for width 4 and 2 rows for width 8: non-block shapes are outside the domain).
 * The highbd flavour takes uint16_t* cast to uint8_t* (no CONVERT_TO_BYTEPTR in this code base). */
KDH(sse) {
    int hbd = P(0);
    int i   = k->icase < 9 ? kr_range(k, 0, 21) : k->icase % 22;
    int w = kd_bsizes[i][0], h = kd_bsizes[i][1];
    int ss, rs;
    ka(k, "w", w), ka(k, "h", h);
    if (!hbd) {
        const uint8_t *a = mk_u8(k, w, h, &ss, 0), *b = mk_u8(k, w, h, &rs, 0);
        ka(k, "a_stride", ss), ka(k, "b_stride", rs);
        kcall(k);
        kret(k, (uint64_t)KFN(k, sse)(a, ss, b, rs, w, h));
    } else {
        int       bd = kr_bool(k) ? 10 : 8;
        uint16_t *a = mk_u16(k, w, h, &ss, (1 << bd) - 1), *b = mk_u16(k, w, h, &rs, (1 << bd) - 1);
        ka(k, "a_stride", ss), ka(k, "b_stride", rs), ka(k, "bd", bd);
        kcall(k);
        kret(k, (uint64_t)KFN(k, sse)((const uint8_t *)a, ss, (const uint8_t *)b, rs, w, h));
    }
}
