#!/usr/bin/env python3
"""C07 generator: parse the RTCD dispatch tables of the *current* tree and emit the kernel table
used by harness/kdiff*.c.

  kernels.py <repo> <out.inc> <out.json>

Sources parsed (nothing else is trusted):
  Source/Lib/Common/Codec/common_dsp_rtcd.c   SET_*(ptr, c, simd...) lines, `if (flags & HAS_X) ptr = fn;`
  Source/Lib/Encoder/Codec/aom_dsp_rtcd.c     idem
  the two *_rtcd.h files                      `RTCD_EXTERN ret(*ptr)(args);` prototypes

The slot layout of every SET_* macro is read from its own #define (SET_X(ptr,c,a,b) ->
SET_FUNCTIONS(ptr,c,0,0,a,...)), so a new macro or a re-ordered one is understood without touching
this file.  Preprocessor conditionals around SET lines are carried over into the generated table.

Output .inc (included by kdiff_table.c after the rtcd headers and kdiff.h):
  * one `extern char kdsym_N[] __asm__("function");` per function (address taken without needing,
    or clashing with, a prototype),
  * one KdEntry per dispatch pointer: name, file, handler (or NULL = uncovered), a compile-time
    `__builtin_types_compatible_p(typeof(pointer), handler signature)` flag, up to 4 integer
    parameters extracted from the name, and the variant list {function, cpu flag}.
Handlers are attached by the RULES below (regex on the pointer name).  A pointer without a rule is
emitted with handler NULL and is reported as uncovered by the check.
"""
import json
import re
import sys

SLOTS = ["mmx", "sse", "sse2", "sse3", "ssse3", "sse4_1", "sse4_2", "avx", "avx2", "avx512"]
SLOT_FLAG = {"mmx": "CPU_FLAGS_MMX", "sse": "CPU_FLAGS_SSE", "sse2": "CPU_FLAGS_SSE2", "sse3": "CPU_FLAGS_SSE3",
             "ssse3": "CPU_FLAGS_SSSE3", "sse4_1": "CPU_FLAGS_SSE4_1", "sse4_2": "CPU_FLAGS_SSE4_2",
             "avx": "CPU_FLAGS_AVX", "avx2": "CPU_FLAGS_AVX2", "avx512": "CPU_FLAGS_AVX512F"}
HAS_FLAG = {"HAS_MMX": "mmx", "HAS_SSE": "sse", "HAS_SSE2": "sse2", "HAS_SSE3": "sse3", "HAS_SSSE3": "ssse3",
            "HAS_SSE4_1": "sse4_1", "HAS_SSE4_2": "sse4_2", "HAS_AVX": "avx", "HAS_AVX2": "avx2",
            "HAS_AVX512F": "avx512"}

FILES = [("common", "Source/Lib/Common/Codec/common_dsp_rtcd.c", "Source/Lib/Common/Codec/common_dsp_rtcd.h"),
         ("encoder", "Source/Lib/Encoder/Codec/aom_dsp_rtcd.c", "Source/Lib/Encoder/Codec/aom_dsp_rtcd.h")]

# --------------------------------------------------------------------------------------------
# handler rules: (regex on pointer name, handler, signature typedef, params)
#   params: list of up to 4 entries; an int, or a string "gN" = int(group N of the match), or a
#   python callable(match) -> int.
# The first matching rule wins.  kdh_<handler> and kds_<sig> must exist in harness/kdiff*.c/h.
# --------------------------------------------------------------------------------------------
TXS = {"4x4": 0, "8x8": 1, "16x16": 2, "32x32": 3, "64x64": 4, "4x8": 5, "8x4": 6, "8x16": 7, "16x8": 8,
       "16x32": 9, "32x16": 10, "32x64": 11, "64x32": 12, "4x16": 13, "16x4": 14, "8x32": 15, "32x8": 16,
       "16x64": 17, "64x16": 18}


def txs(g):
    return lambda m: TXS[m.group(g)]


RULES = []
IMODES = ["dc", "dc_top", "dc_left", "dc_128", "v", "h", "smooth", "smooth_h", "smooth_v", "paeth"]


def rule(rx, handler, sig=None, params=()):
    RULES.append((re.compile(rx + r"\Z"), handler, sig or handler, list(params)))


def load_rules():
    # ---- SAD family
    rule(r"svt_aom_sad(\d+)x(\d+)", "sad", "sad", ["g1", "g2", 0])
    rule(r"svt_aom_sad(\d+)x(\d+)_avg", "sad_avg", "sad_avg", ["g1", "g2"])
    rule(r"svt_aom_sad(\d+)x(\d+)x4d", "sad4d", "sad4d", ["g1", "g2"])
    rule(r"svt_aom_highbd_sad(\d+)x(\d+)", "sad", "sad", ["g1", "g2", 1])
    rule(r"svt_aom_obmc_sad(\d+)x(\d+)", "obmc_sad", "obmc_sad", ["g1", "g2"])
    rule(r"svt_aom_obmc_variance(\d+)x(\d+)", "obmc_var", "obmc_var", ["g1", "g2"])
    rule(r"svt_aom_obmc_sub_pixel_variance(\d+)x(\d+)", "obmc_subpel_var", "obmc_subpel_var", ["g1", "g2"])
    # ---- variance family
    rule(r"svt_aom_variance(\d+)x(\d+)", "variance", "variance", ["g1", "g2", 8])
    rule(r"svt_aom_highbd_10_variance(\d+)x(\d+)", "variance", "variance", ["g1", "g2", 10])
    rule(r"svt_aom_sub_pixel_variance(\d+)x(\d+)", "subpel_var", "subpel_var", ["g1", "g2"])
    rule(r"svt_aom_mse16x16", "variance", "variance", [16, 16, 8])
    rule(r"svt_aom_highbd_8_mse16x16", "variance", "mse_void", [16, 16, 108])
    rule(r"sad_16b_kernel", "sad16b", "sad16b")
    rule(r"variance_highbd", "var_hbd_wh", "var_hbd_wh")
    # ---- intra predictors
    rule(r"svt_aom_(dc|dc_top|dc_left|dc_128|v|h|smooth|smooth_h|smooth_v|paeth)_predictor_(\d+)x(\d+)",
         "intra", "intra", ["g2", "g3", lambda m: IMODES.index(m.group(1))])
    rule(r"svt_aom_highbd_(dc|dc_top|dc_left|dc_128|v|h|smooth|smooth_h|smooth_v|paeth)_predictor_(\d+)x(\d+)",
         "intra_hbd", "intra_hbd", ["g2", "g3", lambda m: IMODES.index(m.group(1))])
    rule(r"svt_av1_dr_prediction_z1", "dr_z1", "dr_z1")
    rule(r"svt_av1_dr_prediction_z2", "dr_z2", "dr_z2")
    rule(r"svt_av1_dr_prediction_z3", "dr_z3", "dr_z1")
    rule(r"svt_av1_highbd_dr_prediction_z1", "dr_z1_hbd", "dr_z1_hbd")
    rule(r"svt_av1_highbd_dr_prediction_z2", "dr_z2_hbd", "dr_z2_hbd")
    rule(r"svt_av1_highbd_dr_prediction_z3", "dr_z3_hbd", "dr_z1_hbd")
    rule(r"svt_av1_filter_intra_predictor", "filter_intra", "filter_intra")
    rule(r"svt_av1_filter_intra_edge", "fie", "fie")
    rule(r"svt_av1_filter_intra_edge_high", "fie_hbd", "fie_hbd")
    rule(r"svt_av1_upsample_intra_edge", "upsample_edge", "upsample_edge")
    rule(r"svt_cfl_predict_lbd", "cfl_pred", "cfl_pred_lbd", [8])
    rule(r"svt_cfl_predict_hbd", "cfl_pred_hbd", "cfl_pred_hbd", [10])
    rule(r"svt_cfl_luma_subsampling_420_lbd", "cfl_sub", "cfl_sub_lbd")
    rule(r"svt_cfl_luma_subsampling_420_hbd", "cfl_sub_hbd", "cfl_sub_hbd")
    rule(r"svt_subtract_average", "sub_avg", "sub_avg")
    # ---- transforms
    rule(r"svt_av1_fwd_txfm2d_(\d+x\d+)", "fwd_txfm", "fwd_txfm", [txs(1), 0])
    rule(r"svt_av1_fwd_txfm2d_(\d+x\d+)_N2", "fwd_txfm", "fwd_txfm", [txs(1), 2])
    rule(r"svt_av1_fwd_txfm2d_(\d+x\d+)_N4", "fwd_txfm", "fwd_txfm", [txs(1), 4])
    rule(r"svt_av1_inv_txfm2d_add_(4x4|8x8|16x16|32x32|64x64)", "inv_txfm_sq", "inv_txfm_sq", [txs(1)])
    rule(r"svt_av1_inv_txfm2d_add_(4x8|8x4|4x16|16x4)", "inv_txfm_rect2", "inv_txfm_rect2", [txs(1)])
    rule(r"svt_av1_inv_txfm2d_add_(\d+x\d+)", "inv_txfm_rect", "inv_txfm_rect", [txs(1)])
    rule(r"svt_av1_inv_txfm_add", "inv_txfm_add", "inv_txfm_add")
    rule(r"svt_av1_highbd_inv_txfm_add", "inv_txfm_add_hbd", "inv_txfm_add_hbd")
    rule(r"svt_av1_fwht4x4", "fwht", "fwht")
    rule(r"svt_handle_transform(16x64|32x64|64x16|64x32|64x64)", "handle_txfm", "handle_txfm", [txs(1), 0])
    rule(r"handle_transform(16x64|32x64|64x16|64x32|64x64)_N2_N4", "handle_txfm", "handle_txfm", [txs(1), 1])
    # ---- convolve
    rule(r"svt_av1_convolve_2d_sr", "convolve", "convolve", [0, 0])
    rule(r"svt_av1_convolve_x_sr", "convolve", "convolve", [1, 0])
    rule(r"svt_av1_convolve_y_sr", "convolve", "convolve", [2, 0])
    rule(r"svt_av1_convolve_2d_copy_sr", "convolve", "convolve", [3, 0])
    rule(r"svt_av1_jnt_convolve_2d", "convolve", "convolve", [0, 1])
    rule(r"svt_av1_jnt_convolve_x", "convolve", "convolve", [1, 1])
    rule(r"svt_av1_jnt_convolve_y", "convolve", "convolve", [2, 1])
    rule(r"svt_av1_jnt_convolve_2d_copy", "convolve", "convolve", [3, 1])
    rule(r"svt_av1_highbd_convolve_2d_sr", "convolve_hbd", "convolve_hbd", [0, 0])
    rule(r"svt_av1_highbd_convolve_x_sr", "convolve_hbd", "convolve_hbd", [1, 0])
    rule(r"svt_av1_highbd_convolve_y_sr", "convolve_hbd", "convolve_hbd", [2, 0])
    rule(r"svt_av1_highbd_convolve_2d_copy_sr", "convolve_hbd", "convolve_hbd", [3, 0])
    rule(r"svt_av1_highbd_jnt_convolve_2d", "convolve_hbd", "convolve_hbd", [0, 1])
    rule(r"svt_av1_highbd_jnt_convolve_x", "convolve_hbd", "convolve_hbd", [1, 1])
    rule(r"svt_av1_highbd_jnt_convolve_y", "convolve_hbd", "convolve_hbd", [2, 1])
    rule(r"svt_av1_highbd_jnt_convolve_2d_copy", "convolve_hbd", "convolve_hbd", [3, 1])
    rule(r"svt_av1_convolve_2d_scale", "convolve_scale", "convolve_scale")
    rule(r"svt_av1_highbd_convolve_2d_scale", "convolve_scale_hbd", "convolve_scale_hbd")
    rule(r"svt_aom_convolve8_horiz", "convolve8", "convolve8", [0])
    rule(r"svt_aom_convolve8_vert", "convolve8", "convolve8", [1])
    rule(r"svt_av1_wiener_convolve_add_src", "wiener_conv", "wiener_conv")
    rule(r"svt_av1_highbd_wiener_convolve_add_src", "wiener_conv_hbd", "wiener_conv_hbd")
    # ---- blend / masks
    rule(r"svt_aom_blend_a64_mask", "blend_mask", "blend_mask", [0])
    rule(r"svt_aom_highbd_blend_a64_mask", "blend_mask_hbd", "blend_mask_hbd", [0])
    rule(r"svt_aom_blend_a64_hmask", "blend_hv", "blend_hv", [0])
    rule(r"svt_aom_blend_a64_vmask", "blend_hv", "blend_hv", [1])
    rule(r"svt_aom_highbd_blend_a64_hmask_8bit", "blend_hv_hbd", "blend_hv_hbd", [0])
    rule(r"svt_aom_highbd_blend_a64_vmask_8bit", "blend_hv_hbd", "blend_hv_hbd", [1])
    rule(r"svt_aom_highbd_blend_a64_hmask_16bit", "blend_hv_hbd16", "blend_hv_hbd16", [0])
    rule(r"svt_aom_highbd_blend_a64_vmask_16bit", "blend_hv_hbd16", "blend_hv_hbd16", [1])
    rule(r"svt_aom_lowbd_blend_a64_d16_mask", "blend_d16", "blend_d16")
    rule(r"svt_aom_highbd_blend_a64_d16_mask", "blend_d16_hbd", "blend_d16_hbd")
    rule(r"svt_av1_build_compound_diffwtd_mask", "diffwtd", "diffwtd")
    rule(r"svt_av1_build_compound_diffwtd_mask_highbd", "diffwtd_hbd", "diffwtd_hbd")
    rule(r"svt_av1_build_compound_diffwtd_mask_d16", "diffwtd_d16", "diffwtd_d16")
    rule(r"svt_av1_wedge_sse_from_residuals", "wedge_sse", "wedge_sse")
    rule(r"svt_av1_wedge_sign_from_residuals", "wedge_sign", "wedge_sign")
    rule(r"svt_av1_wedge_compute_delta_squares", "wedge_delta", "wedge_delta")
    rule(r"svt_aom_subtract_block", "subtract", "subtract")
    rule(r"svt_aom_highbd_subtract_block", "subtract_hbd", "subtract_hbd")
    rule(r"svt_aom_sse", "sse", "sse", [0])
    rule(r"svt_aom_highbd_sse", "sse", "sse", [1])
    rule(r"(svt_)?aom_sum_squares_i16", "sumsq_i16", "sumsq_i16")
    rule(r"svt_aom_sum_squares_2d_i16", "sumsq_2d", "sumsq_2d")
    # ---- loop filters
    rule(r"svt_aom_lpf_(horizontal|vertical)_(4|6|8|14)", "lpf", "lpf",
         [lambda m: 0 if m.group(1) == "horizontal" else 1, "g2"])
    rule(r"svt_aom_highbd_lpf_(horizontal|vertical)_(4|6|8|14)", "lpf_hbd", "lpf_hbd",
         [lambda m: 0 if m.group(1) == "horizontal" else 1, "g2"])
    # ---- CDEF
    rule(r"svt_cdef_find_dir", "cdef_dir", "cdef_dir")
    rule(r"svt_cdef_filter_block", "cdef_filter", "cdef_filter")
    rule(r"svt_compute_cdef_dist_16bit", "cdef_dist16", "cdef_dist16")
    rule(r"svt_compute_cdef_dist_8bit", "cdef_dist8", "cdef_dist8")
    rule(r"svt_copy_rect8_8bit_to_16bit", "copy_rect8to16", "copy_rect8to16")
    rule(r"svt_search_one_dual", "search_one_dual", "search_one_dual")
    # ---- restoration
    rule(r"svt_av1_selfguided_restoration", "sgr", "sgr")
    rule(r"svt_apply_selfguided_restoration", "sgr_apply", "sgr_apply")
    rule(r"svt_av1_lowbd_pixel_proj_error", "proj_err", "proj_err", [0])
    rule(r"svt_av1_highbd_pixel_proj_error", "proj_err", "proj_err", [1])
    rule(r"svt_av1_compute_stats", "wiener_stats", "wiener_stats")
    rule(r"svt_av1_compute_stats_highbd", "wiener_stats_hbd", "wiener_stats_hbd")
    rule(r"svt_get_proj_subspace", "proj_subspace", "proj_subspace")
    # ---- quantize
    rule(r"svt_aom_quantize_b", "quant_b", "quant_b", [0, 0])
    rule(r"svt_aom_quantize_b_32x32", "quant_b", "quant_b", [1, 0])
    rule(r"svt_aom_quantize_b_64x64", "quant_b", "quant_b", [2, 0])
    rule(r"svt_aom_highbd_quantize_b", "quant_b", "quant_b", [0, 1])
    rule(r"svt_aom_highbd_quantize_b_32x32", "quant_b", "quant_b", [1, 1])
    rule(r"svt_aom_highbd_quantize_b_64x64", "quant_b", "quant_b", [2, 1])
    rule(r"svt_av1_quantize_fp", "quant_fp", "quant_fp", [0])
    rule(r"svt_av1_quantize_fp_32x32", "quant_fp", "quant_fp", [1])
    rule(r"svt_av1_quantize_fp_64x64", "quant_fp", "quant_fp", [2])
    rule(r"svt_av1_highbd_quantize_fp", "quant_fp_hbd", "quant_fp_hbd")
    rule(r"svt_av1_quantize_b_qm", "quant_qm", "quant_qm", [0])
    rule(r"svt_av1_highbd_quantize_b_qm", "quant_qm", "quant_qm", [1])
    # ---- entropy helpers
    rule(r"svt_av1_txb_init_levels", "txb_init", "txb_init")
    rule(r"svt_av1_get_nz_map_contexts", "nz_map", "nz_map")
    rule(r"svt_aom_satd", "satd", "satd")
    rule(r"svt_av1_block_error", "block_error", "block_error")
    rule(r"svt_av1_highbd_block_error", "block_error_hbd", "block_error_hbd")
    rule(r"svt_aom_hadamard_(8x8|16x16|32x32)", "hadamard", "hadamard",
         [lambda m: int(m.group(1).split("x")[0])])
    # ---- residual / picture operators
    rule(r"svt_residual_kernel8bit", "residual8", "residual8")
    rule(r"svt_residual_kernel16bit", "residual16", "residual16")
    rule(r"svt_picture_average_kernel", "pic_avg", "pic_avg")
    rule(r"svt_picture_average_kernel1_line", "pic_avg1", "pic_avg1")
    rule(r"svt_spatial_full_distortion_kernel", "sfd", "sfd")
    rule(r"svt_full_distortion_kernel16_bits", "fd16", "sfd")
    rule(r"svt_full_distortion_kernel32_bits", "fd32", "fd32", [0])
    rule(r"svt_full_distortion_kernel_cbf_zero32_bits", "fd32", "fd32z", [1])
    rule(r"svt_av1_calc_frame_error", "frame_error", "frame_error")
    rule(r"svt_compressed_packmsb", "packmsb", "msb_pack")
    rule(r"svt_c_pack", "c_pack", "c_pack")
    rule(r"svt_unpack_avg", "unpack_avg", "unpack_avg")
    rule(r"svt_unpack_avg_safe_sub", "unpack_avg_safe", "unpack_avg_safe")
    rule(r"svt_un_pack8_bit_data", "unpack8", "unpack8")
    rule(r"svt_enc_msb_un_pack2_d", "msb_unpack", "msb_unpack")
    rule(r"svt_enc_un_pack8_bit_data", "unpack8", "unpack8")
    rule(r"svt_enc_msb_pack2_d", "msb_pack", "msb_pack")
    rule(r"svt_un_pack2d_16_bit_src_mul4", "msb_unpack", "msb_unpack")
    rule(r"svt_pack2d_16_bit_src_mul4", "msb_pack", "msb_pack")
    rule(r"svt_convert_8bit_to_16bit", "cvt8to16", "cvt8to16")
    rule(r"svt_convert_16bit_to_8bit", "cvt16to8", "cvt16to8")
    rule(r"svt_memcpy", "memcpy", "memcpy")
    rule(r"svt_memset16bit_block", "memset16", "memset16")  # hypothetical name, kept for trees that have it
    rule(r"svt_av1_copy_wxh_8bit", "copy_wxh", "copy_wxh", [0])
    rule(r"svt_av1_copy_wxh_16bit", "copy_wxh16", "copy_wxh16", [1])
    rule(r"svt_compute_mean_8x8", "mean8x8", "mean8x8", [0])
    rule(r"svt_compute_mean_square_values_8x8", "mean8x8", "mean8x8", [1])
    rule(r"svt_compute_sub_mean_8x8", "submean8x8", "submean8x8")
    rule(r"svt_compute_interm_var_four8x8", "var4x8x8", "var4x8x8")
    rule(r"svt_av1_compute_cross_correlation", "cross_corr", "cross_corr")
    rule(r"svt_av1_warp_affine", "warp", "warp")
    rule(r"svt_av1_highbd_warp_affine", "warp_hbd", "warp_hbd")
    rule(r"svt_aom_fft(2|4|8|16|32)x\1_float", "fft", "fft", ["g1", 0])
    rule(r"svt_aom_ifft(2|4|8|16|32)x\1_float", "fft", "fft", ["g1", 1])
    rule(r"svt_av1_apply_temporal_filter_planewise", "tf_planewise", "tf_planewise")
    rule(r"svt_av1_apply_temporal_filter_planewise_hbd", "tf_planewise_hbd", "tf_planewise_hbd")
    # ---- motion estimation SAD kernels (Intel-style)
    rule(r"svt_nxm_sad_kernel_sub_sampled", "nxm_sad", "nxm_sad", [0])
    rule(r"svt_nxm_sad_kernel", "nxm_sad", "nxm_sad", [1])
    rule(r"svt_sad_loop_kernel", "sad_loop", "sad_loop")
    rule(r"svt_ext_sad_calculation_8x8_16x16", "ext_sad_8x8_16x16", "ext_sad_8x8_16x16")
    rule(r"svt_ext_sad_calculation_32x32_64x64", "ext_sad_32x32_64x64", "ext_sad_32x32_64x64")
    rule(r"svt_ext_all_sad_calculation_8x8_16x16", "ext_all_sad", "ext_all_sad")
    rule(r"svt_ext_eight_sad_calculation_32x32_64x64", "ext_eight_sad", "ext_eight_sad")
    rule(r"svt_ext_eigth_sad_calculation_nsq", "ext_eight_nsq", "ext_eight_nsq")
    rule(r"svt_initialize_buffer_32bits", "init_buf32", "init_buf32")
    rule(r"svt_av1_get_gradient_hist", "grad_hist", "grad_hist")  # hypothetical
    rule(r"svt_av1_compute_stats", "wiener_stats", "wiener_stats")
    rule(r"svt_aom_get_mb_ss", "mb_ss", "mb_ss")  # hypothetical
    rule(r"svt_log2f", "log2f", "log2f")
    rule(r"svt_av1_haar_ac_sad_8x8_uint8_input", "haar", "haar")
    rule(r"svt_av1_get_eob_pos", "eob_pos", "eob_pos")  # hypothetical
    rule(r"svt_aom_upsampled_pred", "upsampled_pred", "upsampled_pred")
    rule(r"svt_aom_highbd_comp_mask_pred", "comp_mask_pred_hbd", "comp_mask_pred_hbd")
    rule(r"svt_aom_comp_mask_pred", "comp_mask_pred", "comp_mask_pred")
    rule(r"svt_av1_highbd_dr_prediction_z2", "dr_z2_hbd", "dr_z2_hbd")
    rule(r"svt_get_final_filtered_pixels", "tf_final", "tf_final")
    rule(r"svt_apply_filtering_central", "tf_central", "tf_central", [0])
    rule(r"svt_apply_filtering_central_highbd", "tf_central_hbd", "tf_central_hbd", [1])
    rule(r"svt_downsample_2d", "downsample2d", "downsample2d")
    rule(r"svt_av1_highbd_convolve_2d_scale", "convolve_scale_hbd", "convolve_scale_hbd")
    rule(r"svt_aom_noise_tx_filter", "noise_tx_filter", "noise_tx_filter")
    rule(r"svt_av1_add_block_observations_internal", "noise_add_obs", "noise_add_obs")
    rule(r"svt_av1_pointwise_multiply", "noise_pw_mul", "noise_pw_mul")
    rule(r"svt_av1_apply_window_function_to_plane", "noise_window", "noise_window")
    rule(r"svt_aom_flat_block_finder_extract_block", "noise_extract", "noise_extract")


# --------------------------------------------------------------------------------------------
def strip_comments(s):
    s = re.sub(r"/\*.*?\*/", " ", s, flags=re.S)
    s = re.sub(r"//[^\n]*", "", s)
    return s


def parse_macros(src):
    """SET_X(ptr, c, a, b)  SET_FUNCTIONS(ptr, c, 0, 0, a, ...)  ->  {SET_X: [slot or None per extra arg]}"""
    macros = {}
    for m in re.finditer(r"#define\s+(SET_\w+)\(([^)]*)\)\s+SET_FUNCTIONS\(([^)]*)\)", src):
        name = m.group(1)
        formal = [a.strip() for a in m.group(2).split(",")]
        actual = [a.strip() for a in m.group(3).split(",")]
        if len(actual) != 2 + len(SLOTS) or formal[:2] != actual[:2]:
            continue
        slotmap = {}
        for slot, a in zip(SLOTS, actual[2:]):
            if a != "0":
                slotmap[a] = slot
        macros[name] = [slotmap.get(f) for f in formal[2:]]
    return macros


def cond_expr(stack):
    parts = [c for c in stack if c]
    return " && ".join("(%s)" % c for c in parts) if parts else "1"


def parse_table(src, which):
    """-> list of dict(ptr, c, variants=[(fn, slot)], cond) in file order, plus plain assignments."""
    macros = parse_macros(src)
    body = strip_comments(src)
    entries = []
    stack = []
    in_setup = False
    for raw in body.split("\n"):
        ln = raw.strip()
        if not ln:
            continue
        if re.match(r"void\s+setup_\w*rtcd_internal\s*\(", ln):
            in_setup = True
            stack = []
            continue
        if not in_setup:
            continue
        m = re.match(r"#\s*(ifdef|ifndef|if|elif|else|endif)\b\s*(.*)", ln)
        if m:
            d, e = m.group(1), m.group(2).strip()
            if d == "ifdef":
                stack.append("defined(%s)" % e)
            elif d == "ifndef":
                stack.append("!defined(%s)" % e)
            elif d == "if":
                stack.append(e)
            elif d == "else":
                if stack:
                    stack[-1] = "!(%s)" % stack[-1]
            elif d == "elif":
                if stack:
                    stack[-1] = "!(%s) && (%s)" % (stack[-1], e)
            elif d == "endif":
                if stack:
                    stack.pop()
            continue
        m = re.match(r"(SET_\w+)\s*\((.*)\)\s*;", ln)
        if m and m.group(1) in macros:
            args = [a.strip() for a in m.group(2).split(",")]
            slots = macros[m.group(1)]
            if len(args) != 2 + len(slots):
                continue
            variants = []
            for fn, slot in zip(args[2:], slots):
                if slot and fn not in ("0", "NULL"):
                    variants.append((fn, slot))
            entries.append({"ptr": args[0], "c": args[1], "variants": variants, "cond": cond_expr(stack),
                            "file": which})
            continue
        m = re.match(r"(?:if\s*\(\s*flags\s*&\s*(HAS_\w+)\s*\)\s*)?(\w+)\s*=\s*(\w+)\s*;", ln)
        if m and m.group(2) not in ("flags", "first_call_setup", "check_pointer_was_set"):
            has, ptr, fn = m.groups()
            if ptr in ("EbBool",):
                continue
            slot = HAS_FLAG.get(has) if has else None
            entries.append({"ptr": ptr, "c": None if slot else fn, "variants": [(fn, slot)] if slot else [],
                            "cond": cond_expr(stack), "file": which, "plain": True})
    return entries


def parse_protos(hdr):
    s = strip_comments(hdr)
    s = re.sub(r"^\s*#.*$", "", s, flags=re.M)
    protos = {}
    for m in re.finditer(r"RTCD_EXTERN\s+([\w\s\*]+?)\(\s*\*\s*(\w+)\s*\)\s*\(([^;]*?)\)\s*;", s, flags=re.S):
        ret, name, args = m.group(1), m.group(2), m.group(3)
        protos[name] = (" ".join(ret.split()), " ".join(args.split()))
    return protos


KEYWORDS = {"unsigned", "signed", "struct", "const", "long", "short", "int", "char", "void", "float", "double",
            "enum"}


def norm_param(p):
    p = p.strip()
    arr = 0
    while True:
        m = re.search(r"\[[^\]]*\]\s*$", p)
        if not m:
            break
        p = p[:m.start()]
        arr += 1
    toks = re.findall(r"\w+|\*", p)
    toks = [t for t in toks if t not in ("const", "restrict", "__restrict", "volatile")]
    if len(toks) > 1 and re.match(r"[A-Za-z_]\w*$", toks[-1]) and toks[-1] not in KEYWORDS \
            and not re.match(r".*_t$", toks[-1]) and (toks[-2] == "*" or toks[-2] not in ("struct", "enum", "unsigned",
                                                                                         "signed")):
        # last token is the parameter name unless the declaration is a bare type such as "TxType"
        if len(toks) >= 2:
            toks = toks[:-1]
    t = " ".join(toks).replace(" *", "*").replace("* ", "*")
    for a, b in (("int32_t", "int"), ("uint32_t", "unsigned"), ("unsigned int", "unsigned"), ("ptrdiff_t", "long"),
                 ("intptr_t", "long"), ("int64_t", "long")):
        t = re.sub(r"\b%s\b" % a, b, t)
    return t + "*" * (1 if arr else 0)


def norm_sig(ret, args):
    ps = [norm_param(p) for p in args.split(",")] if args.strip() not in ("", "void") else []
    return "%s(%s)" % (norm_param(ret + " x").strip(), ",".join(ps))


def build(repo):
    load_rules()
    entries = []
    protos = {}
    for which, cfile, hfile in FILES:
        src = open("%s/%s" % (repo, cfile), errors="replace").read()
        entries += parse_table(src, which)
        protos.update(parse_protos(open("%s/%s" % (repo, hfile), errors="replace").read()))
    # merge entries of the same pointer under the same condition
    merged = []
    index = {}
    for e in entries:
        k = (e["ptr"], e["cond"] if not e.get("plain") else None)
        if e.get("plain"):
            # attach to an earlier entry of the same pointer, else create a C-less entry
            tgt = None
            for me in merged:
                if me["ptr"] == e["ptr"]:
                    tgt = me
            if tgt is None:
                tgt = {"ptr": e["ptr"], "c": e["c"], "variants": [], "cond": "1", "file": e["file"]}
                merged.append(tgt)
            elif e["c"] and not tgt["c"]:
                tgt["c"] = e["c"]
            for fn, slot in e["variants"]:
                tgt["variants"].append((fn, slot, e["cond"]))
            continue
        if k in index:
            continue
        index[k] = len(merged)
        merged.append({"ptr": e["ptr"], "c": e["c"], "cond": e["cond"], "file": e["file"],
                       "variants": [(fn, slot, "EN_AVX512_SUPPORT" if slot == "avx512" else "1")
                                    for fn, slot in e["variants"]]})
    for e in merged:
        p = protos.get(e["ptr"])
        e["proto"] = "%s(*)(%s)" % p if p else None
        e["sigclass"] = norm_sig(*p) if p else "?"
        e["handler"] = None
        e["params"] = [0, 0, 0, 0]
        for rx, handler, sig, params in RULES:
            m = rx.match(e["ptr"])
            if not m:
                continue
            vals = []
            for prm in params:
                if isinstance(prm, int):
                    vals.append(prm)
                elif callable(prm):
                    vals.append(int(prm(m)))
                else:
                    vals.append(int(m.group(int(prm[1:]))))
            e["handler"], e["sig"] = handler, sig
            e["params"] = (vals + [0, 0, 0, 0])[:4]
            break
    return merged


def emit(merged, known_handlers=None):
    out = ["/* generated by gen/kernels.py - do not edit */"]
    syms = {}

    def sym(fn):
        if fn not in syms:
            syms[fn] = "kdsym_%d" % len(syms)
            out.append('extern char %s[] __asm__("%s");' % (syms[fn], fn))
        return syms[fn]

    rows = []
    for i, e in enumerate(merged):
        if not e["c"]:
            continue
        var_lines = ['    {"%s", (kd_fn)%s, 0},' % (e["c"], sym(e["c"]))]
        for fn, slot, cond in e["variants"]:
            line = '    {"%s", (kd_fn)%s, %s},' % (fn, sym(fn), SLOT_FLAG[slot])
            if cond != "1":
                line = "#if %s\n%s\n#endif" % (cond, line)
            var_lines.append(line)
        h = e["handler"]
        if h and known_handlers is not None and h not in known_handlers:
            h = None
            e["handler_missing"] = e["handler"]
            e["handler"] = None
        rows.append((i, e, var_lines, h))
    for i, e, var_lines, h in rows:
        if e["cond"] != "1":
            out.append("#if %s" % e["cond"])
        out.append("static const KdVariant kdv_%d[] = {\n%s\n    {0, 0, 0}};" % (i, "\n".join(var_lines)))
        if e["cond"] != "1":
            out.append("#endif")
    for h in sorted(set(h for _, _, _, h in rows if h)):
        out.append("void kdh_%s(KdCtx *k);" % h)
    out.append("const KdEntry kd_table[] = {")
    for i, e, var_lines, h in rows:
        if e["cond"] != "1":
            out.append("#if %s" % e["cond"])
        if h:
            sigok = "__builtin_types_compatible_p(__typeof__(%s), kds_%s)" % (e["ptr"], e["sig"])
            out.append('  {"%s", "%s", "%s", kdh_%s, %s, {%s}, kdv_%d},' % (
                e["ptr"], e["file"], h, h, sigok, ",".join(str(v) for v in e["params"]), i))
        else:
            out.append('  {"%s", "%s", "", 0, 0, {0,0,0,0}, kdv_%d},' % (e["ptr"], e["file"], i))
        if e["cond"] != "1":
            out.append("#endif")
    out.append("  {0, 0, 0, 0, 0, {0,0,0,0}, 0}};")
    return "\n".join(out) + "\n"


def main():
    repo, out_inc, out_json = sys.argv[1:4]
    known = None
    if len(sys.argv) > 4:
        # names of the handlers that exist in the harness sources (kdh_xxx definitions)
        known = set()
        for p in sys.argv[4:]:
            known |= set(re.findall(r"^KDH\((\w+)\)", open(p).read(), flags=re.M))
    merged = build(repo)
    inc = emit(merged, known)
    open(out_inc, "w").write(inc)
    summary = {"pointers": len(merged),
               "with_simd": sum(1 for e in merged if e["variants"]),
               "signature_classes": len(set(e["sigclass"] for e in merged)),
               "entries": [{"ptr": e["ptr"], "file": e["file"], "c": e["c"], "sigclass": e["sigclass"],
                            "proto": e["proto"], "handler": e["handler"], "params": e["params"],
                            "variants": [[fn, slot] for fn, slot, _ in e["variants"]]} for e in merged]}
    json.dump(summary, open(out_json, "w"), indent=0)


if __name__ == "__main__":
    main()
