#!/usr/bin/env python3
"""Generate the field table of EbSvtAv1EncConfiguration from the API header of the
*current* /repo tree.  Output: a C include with one F()/FA()/FB() line per member,
preprocessor conditionals passed through, so that the table always matches the struct
the library is compiled with."""
import re
import sys


def main(hdr, out):
    s = open(hdr).read()
    m = re.search(r"typedef struct EbSvtAv1EncConfiguration\s*\{(.*?)\}\s*EbSvtAv1EncConfiguration\s*;", s, re.S)
    if not m:
        sys.exit("EbSvtAv1EncConfiguration not found")
    body = m.group(1)
    body = re.sub(r"/\*.*?\*/", "", body, flags=re.S)
    body = re.sub(r"//[^\n]*", "", body)
    lines = []
    # keep preprocessor lines; split the rest on ';'
    buf = ""
    for ln in body.split("\n"):
        t = ln.strip()
        if t.startswith("#"):
            lines.append(("pp", t))
            continue
        buf += " " + t
        while ";" in buf:
            decl, buf = buf.split(";", 1)
            decl = decl.strip()
            if decl:
                lines.append(("decl", decl))
    out_lines = []
    scalars = ("int8_t", "uint8_t", "int16_t", "uint16_t", "int32_t", "uint32_t", "int64_t", "uint64_t",
               "int", "unsigned", "EbBool", "CPU_FLAGS", "EbColorFormat", "uint32_t", "char")
    for kind, t in lines:
        if kind == "pp":
            out_lines.append(t)
            continue
        mm = re.match(r"^([A-Za-z_][A-Za-z0-9_ ]*?)\s+((?:\*?\s*[A-Za-z_][A-Za-z0-9_]*(?:\s*\[[^\]]*\])*\s*,?\s*)+)$", t)
        if not mm:
            sys.exit("cannot parse member: %r" % t)
        typ = mm.group(1).strip()
        for d in mm.group(2).split(","):
            d = d.strip()
            if not d:
                continue
            am = re.match(r"^([A-Za-z_][A-Za-z0-9_]*)\s*\[(.*)\]$", d)
            isscalar = typ in scalars
            if am:
                if isscalar:
                    out_lines.append("FA(%s, %s)" % (am.group(1), am.group(2)))
                else:
                    out_lines.append("FB(%s)" % am.group(1))
            elif isscalar:
                out_lines.append("F(%s)" % d)
            else:
                out_lines.append("FB(%s)" % d)
    open(out, "w").write("/* generated from %s */\n" % hdr + "\n".join(out_lines) + "\n")


if __name__ == "__main__":
    main(sys.argv[1], sys.argv[2])
