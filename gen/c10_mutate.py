#!/usr/bin/env python3
"""C10: dec_fuzz input format helpers, seed-corpus builder and the deterministic structured mutator.

dec_fuzz input = control byte + payload (see harness/dec_fuzz.c):
  bit0 annexb, bit1 16-bit pipeline, bit2 multi-call records [len u24 LE][bytes], bit3 skip film grain,
  bit4-5 operating point, bit6 poll picture after a failed call.

The mutator is a pure function: mutant(seed, index, seeds) depends on nothing else (random.Random seeded with a
string), so the check's case list is reproducible and can be split over workers by index ranges.

CLI:
  c10_mutate.py seeds <outdir>                       (re)build the seed corpus with the plain encoder
  c10_mutate.py pack <corpusdir> <seed> <from> <to> <out.pack>
  c10_mutate.py show <file>                           print the OBU structure of a dec_fuzz input
"""
import hashlib
import os
import random
import struct
import sys

CTL_ANNEXB, CTL_16BIT, CTL_MULTI, CTL_NOFG, CTL_POLL = 1, 2, 4, 8, 0x40
OBU_SH, OBU_TD, OBU_FH, OBU_TG, OBU_META, OBU_FRAME, OBU_RFH, OBU_TL, OBU_PAD = 1, 2, 3, 4, 5, 6, 7, 8, 15


# ------------------------------------------------------------------ LEB128 / OBU framing
def leb128(v, nbytes=None):
    out = bytearray()
    while True:
        b = v & 0x7f
        v >>= 7
        if v or (nbytes is not None and len(out) + 1 < nbytes):
            out.append(b | 0x80)
        else:
            out.append(b)
            break
    return bytes(out)


def read_leb128(d, off):
    v = 0
    for i in range(8):
        if off + i >= len(d):
            return None, 0
        b = d[off + i]
        v |= (b & 0x7f) << (7 * i)
        if not b & 0x80:
            return v, i + 1
    return None, 0


class Obu:
    __slots__ = ("type", "ext", "payload")

    def __init__(self, type_, ext, payload):
        self.type, self.ext, self.payload = type_, ext, payload

    def ser(self, has_size=True, size_override=None, size_bytes=None):
        h = bytes([(self.type & 15) << 3 | (4 if self.ext is not None else 0) | (2 if has_size else 0)])
        if self.ext is not None:
            h += bytes([self.ext])
        if has_size:
            h += leb128(len(self.payload) if size_override is None else size_override, size_bytes)
        return h + self.payload

    def copy(self):
        return Obu(self.type, self.ext, self.payload)


def split_obus(d):
    """Low-overhead format (obu_has_size_field = 1 everywhere, as SVT writes it) -> list of Obu.  Stops quietly at
    the first byte that does not parse; returns (obus, consumed)."""
    out = []
    off = 0
    n = len(d)
    while off < n:
        h = d[off]
        if h & 0x81:
            break
        t = (h >> 3) & 15
        ext = None
        p = off + 1
        if h & 4:
            if p >= n:
                break
            ext = d[p]
            p += 1
        if not h & 2:
            out.append(Obu(t, ext, bytes(d[p:])))
            off = n
            break
        sz, ln = read_leb128(d, p)
        if sz is None or p + ln + sz > n:
            break
        p += ln
        out.append(Obu(t, ext, bytes(d[p:p + sz])))
        off = p + sz
    return out, off


def ser_lo(obus):
    return b"".join(o.ser(True) for o in obus)


def ser_annexb(obus, keep_size_field=False):
    """What the sample application passes for Annex-B: the content of a frame unit = [obu_length][obu]..."""
    out = bytearray()
    for o in obus:
        b = o.ser(keep_size_field)
        out += leb128(len(b)) + b
    return bytes(out)


def build_input(ctl, calls):
    """calls: list of byte strings, one per svt_av1_dec_frame call"""
    if ctl & CTL_MULTI:
        body = b"".join(struct.pack("<I", len(c))[:3] + c for c in calls)
    else:
        body = b"".join(calls)
    return bytes([ctl & 0xff]) + body


def parse_input(inp):
    """-> (ctl, [call payloads])"""
    if not inp:
        return 0, []
    ctl = inp[0]
    d = inp[1:]
    if not ctl & CTL_MULTI:
        return ctl, [d]
    calls = []
    off = 0
    while off + 3 <= len(d) and len(calls) < 64:
        ln = d[off] | d[off + 1] << 8 | d[off + 2] << 16
        off += 3
        ln = min(ln, len(d) - off)
        calls.append(d[off:off + ln])
        off += ln
    return ctl, calls


def call_obus(ctl, call):
    """Parse one call's payload into OBUs (either framing). -> list of Obu or None when it does not parse fully."""
    if ctl & CTL_ANNEXB:
        out = []
        off = 0
        while off < len(call):
            ln, k = read_leb128(call, off)
            if ln is None or ln == 0 or off + k + ln > len(call):
                return None
            b = call[off + k:off + k + ln]
            h = b[0]
            p = 1
            ext = None
            if h & 4:
                if len(b) < 2:
                    return None
                ext = b[1]
                p = 2
            if h & 2:
                sz, kk = read_leb128(b, p)
                if sz is None:
                    return None
                p += kk
            out.append(Obu((h >> 3) & 15, ext, bytes(b[p:])))
            off += k + ln
        return out
    obus, used = split_obus(call)
    return obus if used == len(call) else None


# ------------------------------------------------------------------ the mutator
def _rng(seed, index):
    return random.Random("c10|%d|%d" % (seed, index))


INTERESTING_SIZES = [0, 1, 2, 3, 4, 7, 8, 9, 127, 128, 129, 255, 256, 16383, 16384, 65535, 65536, 1 << 21, (1 << 28) - 1,
                     1 << 28, (1 << 32) - 1, 1 << 32, (1 << 35) - 1, (1 << 56) - 1]


def _flip_bits(rng, b, lo, hi, n):
    b = bytearray(b)
    hi = min(hi, len(b))
    if hi <= lo:
        return bytes(b)
    for _ in range(n):
        i = rng.randrange(lo, hi)
        b[i] ^= 1 << rng.randrange(8)
    return bytes(b)


def _havoc(rng, b, n):
    b = bytearray(b)
    for _ in range(n):
        if not b:
            b += bytes([rng.randrange(256)])
            continue
        k = rng.randrange(7)
        i = rng.randrange(len(b))
        if k == 0:
            b[i] ^= 1 << rng.randrange(8)
        elif k == 1:
            b[i] = rng.choice([0, 0xff, 0x80, 0x7f, 1, rng.randrange(256)])
        elif k == 2:
            del b[i:i + rng.choice([1, 1, 2, 4, 8, 16])]
        elif k == 3:
            b[i:i] = bytes(rng.randrange(256) for _ in range(rng.choice([1, 1, 2, 4, 8])))
        elif k == 4:
            j = rng.randrange(len(b))
            ln = rng.choice([1, 2, 4, 8, 16, 32])
            b[i:i + ln] = b[j:j + ln]
        elif k == 5:
            b[i:i + 1] = bytes([b[i]]) * rng.choice([2, 3, 8])
        else:
            v = (b[i] + rng.choice([-1, 1, -16, 16])) & 0xff
            b[i] = v
    return bytes(b)


class Seed:
    """A parsed seed: ctl, and for each call the OBU list (or raw bytes when it does not parse)."""

    def __init__(self, name, inp):
        self.name = name
        self.raw = inp
        self.ctl, calls = parse_input(inp)
        self.calls = []
        for c in calls:
            o = call_obus(self.ctl, c)
            self.calls.append(o if o is not None else c)


def _ser_call(ctl, call, rng=None):
    if isinstance(call, (bytes, bytearray)):
        return bytes(call)
    if ctl & CTL_ANNEXB:
        return ser_annexb(call)
    return ser_lo(call)


def _pick_obu(rng, calls, types=None):
    idx = [(ci, oi) for ci, c in enumerate(calls) if isinstance(c, list) for oi, o in enumerate(c)
           if types is None or o.type in types]
    return rng.choice(idx) if idx else None


STRATEGIES = ["trunc_obu", "hdr_bits", "hdr_bits", "splice_tiles", "leb", "leb", "havoc", "havoc", "obu_type", "obu_struct",
              "ctl", "random", "payload_cut", "frame_split", "cross_stream", "sh_swap", "raw_trunc", "tail_bits"]


def mutant(seed, index, seeds):
    """-> (bytes, description).  seeds: list of Seed (fixed order)."""
    rng = _rng(seed, index)
    s = rng.choice(seeds)
    strat = rng.choice(STRATEGIES)
    ctl = s.ctl
    calls = [[o.copy() for o in c] if isinstance(c, list) else bytes(c) for c in s.calls]
    # keep inputs short: drop calls from the end at random (state-dependent paths still reachable)
    if len(calls) > 2 and rng.random() < 0.6:
        calls = calls[:rng.randrange(1, len(calls))]
    desc = "%s:%s" % (s.name, strat)
    post = None  # raw post-processing on the serialized input

    if strat == "trunc_obu":
        # truncate the whole byte string of a call at an OBU boundary +- k
        ci = rng.randrange(len(calls)) if calls else 0
        if calls:
            sc = _ser_call(ctl, calls[ci])
            bounds = [0]
            if isinstance(calls[ci], list):
                acc = 0
                for o in calls[ci]:
                    b = (ser_annexb([o]) if ctl & CTL_ANNEXB else o.ser(True))
                    hdr = len(b) - len(o.payload)
                    bounds.append(acc + hdr)
                    acc += len(b)
                    bounds.append(acc)
            cut = max(0, min(len(sc), rng.choice(bounds) + rng.randrange(-4, 5)))
            calls = calls[:ci] + [sc[:cut]]
    elif strat in ("hdr_bits", "tail_bits"):
        pick = _pick_obu(rng, calls, (OBU_SH, OBU_FH, OBU_FRAME, OBU_RFH, OBU_TG) if strat == "hdr_bits" else (OBU_FRAME, OBU_TG))
        if pick:
            ci, oi = pick
            o = calls[ci][oi]
            if strat == "hdr_bits":
                span = len(o.payload) if o.type == OBU_SH else min(len(o.payload), rng.choice([2, 4, 8, 16, 24, 40]))
                o.payload = _flip_bits(rng, o.payload, 0, span, rng.choice([1, 1, 1, 2, 3, 5]))
            else:
                lo = min(len(o.payload), rng.choice([8, 16, 32]))
                o.payload = _flip_bits(rng, o.payload, lo, len(o.payload), rng.choice([1, 2, 4, 8, 32]))
    elif strat == "splice_tiles":
        a = _pick_obu(rng, calls, (OBU_FRAME, OBU_TG))
        s2 = rng.choice(seeds)
        b = _pick_obu(rng, s2.calls, (OBU_FRAME, OBU_TG))
        if a and b:
            oa = calls[a[0]][a[1]]
            ob = s2.calls[b[0]][b[1]]
            ka = rng.randrange(0, min(len(oa.payload), 48) + 1)
            kb = rng.randrange(0, min(len(ob.payload), 48) + 1)
            oa.payload = oa.payload[:ka] + ob.payload[kb:]
            desc += "+" + s2.name
    elif strat == "leb":
        # corrupt a size field: serialise by hand with an overridden size
        pick = _pick_obu(rng, calls)
        if pick:
            ci, oi = pick
            parts = []
            for k, o in enumerate(calls[ci]):
                if k != oi:
                    parts.append(ser_annexb([o]) if ctl & CTL_ANNEXB else o.ser(True))
                    continue
                true = len(o.payload)
                mode = rng.randrange(6)
                if mode == 0:
                    v = rng.choice(INTERESTING_SIZES)
                elif mode == 1:
                    v = max(0, true + rng.choice([-3, -2, -1, 1, 2, 3, 8, 64]))
                elif mode == 2:
                    v = true
                else:
                    v = rng.randrange(0, 2 * true + 16)
                nb = rng.choice([None, None, 2, 3, 4, 5, 8]) if mode != 2 else rng.choice([2, 3, 4, 8])
                if ctl & CTL_ANNEXB:
                    body = o.ser(rng.random() < 0.3, size_override=v if rng.random() < 0.5 else None)
                    if rng.random() < 0.7:
                        parts.append(leb128(v if mode != 2 else len(body), nb) + body)
                    else:
                        parts.append(b"\xff" * rng.choice([1, 4, 7, 8, 9]) + body)
                else:
                    if rng.random() < 0.15:
                        h = o.ser(True)
                        parts.append(h[:1] + b"\xff" * rng.choice([1, 4, 7, 8, 9]) + o.payload)
                    else:
                        parts.append(o.ser(True, size_override=v, size_bytes=nb))
            calls[ci] = b"".join(parts)
    elif strat == "havoc":
        ci = rng.randrange(len(calls)) if calls else 0
        if calls:
            calls[ci] = _havoc(rng, _ser_call(ctl, calls[ci]), rng.choice([1, 1, 2, 3, 5, 8, 16]))
    elif strat == "obu_type":
        pick = _pick_obu(rng, calls)
        if pick:
            ci, oi = pick
            o = calls[ci][oi]
            k = rng.randrange(4)
            if k == 0:
                o.type = rng.choice([OBU_SH, OBU_TD, OBU_FH, OBU_TG, OBU_META, OBU_FRAME, OBU_RFH, OBU_TL, OBU_PAD, 0, 9])
            elif k == 1:
                o.ext = rng.randrange(256) if o.ext is None else None
            elif k == 2:
                # clear has_size_field / set forbidden or reserved bit on the serialized header
                sc = bytearray(_ser_call(ctl, calls[ci][:oi]))
                me = bytearray(ser_annexb([o]) if ctl & CTL_ANNEXB else o.ser(True))
                hp = 0
                if ctl & CTL_ANNEXB:
                    _, hp = read_leb128(me, 0)
                me[hp] ^= rng.choice([0x02, 0x80, 0x01, 0x04])
                calls[ci] = bytes(sc) + bytes(me) + _ser_call(ctl, calls[ci][oi + 1:])
            else:
                o.type = OBU_META
                o.payload = bytes([rng.choice([1, 2, 3, 4, 5, 0, 31])]) + o.payload[:rng.randrange(0, 40)]
    elif strat == "obu_struct":
        ci = rng.randrange(len(calls)) if calls else 0
        if calls and isinstance(calls[ci], list) and calls[ci]:
            c = calls[ci]
            k = rng.randrange(6)
            i = rng.randrange(len(c))
            if k == 0:
                del c[i]
            elif k == 1:
                c.insert(i, c[i].copy())
            elif k == 2:
                j = rng.randrange(len(c))
                c[i], c[j] = c[j], c[i]
            elif k == 3:
                c.insert(i, Obu(OBU_TD, None, b""))
            elif k == 4:
                c.insert(i, Obu(OBU_PAD, None, bytes(rng.randrange(256) for _ in range(rng.randrange(0, 12)))))
            else:
                # drop every sequence header of the input
                calls = [[o for o in cc if o.type != OBU_SH] if isinstance(cc, list) else cc for cc in calls]
    elif strat == "ctl":
        k = rng.randrange(5)
        if k == 0:
            ctl ^= CTL_ANNEXB  # wrong framing flag for the data
        elif k == 1:
            # same OBUs, other framing
            newctl = ctl ^ CTL_ANNEXB
            ctl = newctl
        elif k == 2:
            ctl ^= CTL_16BIT
        elif k == 3:
            ctl ^= CTL_POLL
        else:
            ctl ^= rng.choice([CTL_NOFG, 0x10, 0x20, 0x30])
        if k == 0:
            # serialise with the OLD framing, flag says the other one
            ser = [_ser_call(ctl ^ CTL_ANNEXB, c) for c in calls]
            calls = ser
        if rng.random() < 0.5:
            # plus a small header perturbation so the combination meets a damaged stream
            ser = [_ser_call(ctl, c) for c in calls]
            ci = rng.randrange(len(ser)) if ser else 0
            if ser:
                ser[ci] = _havoc(rng, ser[ci], 1)
            calls = ser
    elif strat == "random":
        n = rng.choice([0, 1, 2, 3, 4, 5, 7, 8, 9, 16, 33, 64, 200])
        mode = rng.randrange(3)
        if mode == 0:
            body = bytes(rng.randrange(256) for _ in range(n))
        elif mode == 1:
            body = bytes([rng.choice([0x0a, 0x12, 0x32, 0x1a, 0x22, 0x2a, 0x3a, 0x7a]), rng.randrange(0, 20)]) + \
                bytes(rng.randrange(256) for _ in range(n))
        else:
            # valid sequence header then garbage frame
            sh = None
            for c in calls:
                if isinstance(c, list):
                    for o in c:
                        if o.type == OBU_SH:
                            sh = o
            body = (_ser_call(ctl, [Obu(OBU_TD, None, b"")] + ([sh] if sh else []))) + \
                _ser_call(ctl, [Obu(rng.choice([OBU_FRAME, OBU_FH, OBU_TG]), None,
                                    bytes(rng.randrange(256) for _ in range(n)))])
        calls = [body]
        ctl &= ~CTL_MULTI
    elif strat == "payload_cut":
        pick = _pick_obu(rng, calls, (OBU_FRAME, OBU_TG, OBU_FH, OBU_SH))
        if pick:
            ci, oi = pick
            o = calls[ci][oi]
            k = rng.randrange(3)
            if k == 0:
                o.payload = o.payload[:rng.randrange(0, len(o.payload) + 1)]
            elif k == 1:
                o.payload = o.payload[:rng.randrange(0, min(len(o.payload), 24) + 1)]
            else:
                o.payload = o.payload + bytes(rng.randrange(256) for _ in range(rng.randrange(1, 16)))
            if rng.random() < 0.5:
                calls[ci] = calls[ci][:oi + 1]
    elif strat == "frame_split":
        # OBU_FRAME -> FRAME_HEADER (+ redundant copy) + TILE_GROUP with a guessed header length
        pick = _pick_obu(rng, calls, (OBU_FRAME,))
        if pick:
            ci, oi = pick
            o = calls[ci][oi]
            k = rng.randrange(0, min(len(o.payload), 40) + 1)
            new = [Obu(OBU_FH, o.ext, o.payload[:k])]
            if rng.random() < 0.5:
                new.append(Obu(OBU_RFH, o.ext, o.payload[:k]))
            new.append(Obu(OBU_TG, o.ext, o.payload[k:]))
            if rng.random() < 0.3:
                new.append(Obu(OBU_TG, o.ext, o.payload[k:]))
            calls[ci][oi:oi + 1] = new
    elif strat == "cross_stream":
        # frames of another stream after this stream's first call (different size / bit depth / tools)
        s2 = rng.choice(seeds)
        c2 = [c for c in s2.calls if isinstance(c, list)]
        if c2 and calls:
            keep = rng.randrange(1, len(calls) + 1)
            other = [[o.copy() for o in c if o.type != OBU_SH or rng.random() < 0.3] for c in c2[rng.randrange(len(c2)):]]
            calls = calls[:keep] + other[:3]
            desc += "+" + s2.name
    elif strat == "sh_swap":
        s2 = rng.choice(seeds)
        sh2 = [o for c in s2.calls if isinstance(c, list) for o in c if o.type == OBU_SH]
        pick = _pick_obu(rng, calls, (OBU_SH,))
        if sh2 and pick:
            calls[pick[0]][pick[1]] = sh2[0].copy()
            desc += "+" + s2.name
    elif strat == "raw_trunc":
        post = "trunc"

    ser = [_ser_call(ctl, c) for c in calls]
    if len(ser) > 1 and not ctl & CTL_MULTI:
        ser = [b"".join(ser)]
    out = build_input(ctl, ser)
    if post == "trunc" and len(out) > 1:
        out = out[:rng.randrange(1, len(out))]
    if len(out) > 1 << 20:
        out = out[:1 << 20]
    return out, desc


def load_seeds(corpus_dir):
    names = sorted(f for f in os.listdir(corpus_dir)
                   if not f.startswith(".") and not f.endswith(".json") and os.path.isfile(os.path.join(corpus_dir, f)))
    return [Seed(n, open(os.path.join(corpus_dir, n), "rb").read()) for n in names]


def write_pack(path, inputs):
    with open(path, "wb") as f:
        for b in inputs:
            f.write(struct.pack("<I", len(b)))
            f.write(b)


def read_pack(path):
    d = open(path, "rb").read()
    out = []
    off = 0
    while off + 4 <= len(d):
        n = struct.unpack_from("<I", d, off)[0]
        off += 4
        out.append(d[off:off + n])
        off += n
    return out


# ------------------------------------------------------------------ seed corpus builder
def seed_cases():
    """Small, diverse encoder cases (fixed list: the committed seeds are reproducible)."""
    b = {"bitdepth": 8, "content": "pan", "cfg.enc_mode": 8, "cfg.recon_enabled": 0, "cfg.logical_processors": 4,
         "width": 64, "height": 64, "frames": 4, "cfg.qp": 50, "content_seed": 7}
    L = []

    def add(name, **kw):
        c = dict(b)
        c.update(kw)
        L.append((name, c))

    add("base64", frames=5)
    add("key1", frames=1, **{"cfg.qp": 30})
    add("q10_96x64", width=96, height=64, frames=3, **{"cfg.qp": 10, "content": "mix"})
    add("odd70x94", width=70, height=94, frames=3, content="gradient")
    add("hl3", frames=9, **{"cfg.hierarchical_levels": 3, "content": "rects"})
    add("hl4_ov", frames=17, width=64, height=64, **{"cfg.hierarchical_levels": 4, "cfg.enable_overlays": 1, "cfg.qp": 55})
    add("lowdelay", frames=6, **{"cfg.hierarchical_levels": 0, "cfg.pred_structure": 1})
    add("intra_only", frames=4, **{"cfg.intra_period_length": 0})
    add("ip3_cra", frames=8, **{"cfg.intra_period_length": 3, "cfg.intra_refresh_type": 1})
    add("bd10", frames=4, bitdepth=10, width=64, height=64, content="zoom")
    add("bd10_p16", frames=3, bitdepth=10, **{"cfg.is_16bit_pipeline": 1, "content": "rects"})
    add("tiles2x2", frames=3, width=256, height=128, **{"cfg.tile_columns": 1, "cfg.tile_rows": 1, "cfg.qp": 60})
    add("tiles4x1", frames=2, width=352, height=96, **{"cfg.tile_columns": 2, "cfg.tile_rows": 0, "cfg.qp": 63, "content": "flat"})
    add("superres_fix", frames=4, width=128, height=96, **{"cfg.superres_mode": 1, "cfg.superres_denom": 12,
                                                         "cfg.superres_kf_denom": 10, "cfg.qp": 55})
    add("superres_rand", frames=5, width=128, height=96, **{"cfg.superres_mode": 2, "cfg.qp": 55, "content": "mix"})
    add("fgrain", frames=4, width=96, height=64, **{"cfg.film_grain_denoise_strength": 10, "content": "noise", "cfg.qp": 55})
    add("fgrain10", frames=3, bitdepth=10, width=64, height=64, **{"cfg.film_grain_denoise_strength": 50})
    add("screen", frames=4, width=128, height=64, **{"cfg.screen_content_mode": 1, "cfg.intrabc_mode": 1,
                                                   "cfg.palette_level": 1, "content": "screen", "cfg.qp": 40})
    add("palette", frames=2, width=64, height=64, **{"cfg.screen_content_mode": 1, "cfg.palette_level": 6,
                                                   "content": "screen", "cfg.qp": 30, "cfg.enc_mode": 4})
    add("m4_warp", frames=6, width=96, height=96, **{"cfg.enc_mode": 4, "cfg.enable_global_motion": 1,
                                                   "cfg.enable_warped_motion": 1, "content": "zoom", "cfg.qp": 45})
    add("m2", frames=3, **{"cfg.enc_mode": 2, "content": "mix", "cfg.qp": 40})
    add("m0", frames=2, **{"cfg.enc_mode": 0, "content": "rects", "cfg.qp": 45})
    add("m6_obmc", frames=6, width=96, height=64, **{"cfg.enc_mode": 5, "cfg.obmc_level": 1, "cfg.compound_level": 2,
                                                   "cfg.inter_intra_compound": 1, "content": "pan", "cfg.qp": 35})
    add("lossless", frames=2, **{"cfg.qp": 0, "content": "extreme"})
    add("noise_q63", frames=3, **{"cfg.qp": 63, "content": "noise"})
    add("nolf_nocdef", frames=3, **{"cfg.disable_dlf_flag": 1, "cfg.cdef_level": 0, "cfg.enable_restoration_filtering": 0})
    add("lr_on", frames=3, width=128, height=128, **{"cfg.enable_restoration_filtering": 1, "cfg.sg_filter_mode": 3,
                                                   "cfg.wn_filter_mode": 3, "cfg.enc_mode": 4, "cfg.qp": 35, "content": "mix"})
    add("cuts", frames=10, **{"content": "cuts", "cfg.scene_change_detection": 0})
    add("vbr", frames=8, width=96, height=64, **{"cfg.rate_control_mode": 1, "cfg.target_bit_rate": 100000})
    add("sb128", frames=3, width=192, height=128, **{"cfg.super_block_size": 128, "cfg.enc_mode": 3, "cfg.qp": 50})
    add("fixedq", frames=5, **{"cfg.use_fixed_qindex_offsets": 1, "cfg.qindex_offsets[0]": -20, "cfg.qindex_offsets[1]": 10})
    add("aq2", frames=4, width=96, height=64, **{"cfg.enable_adaptive_quantization": 2, "content": "mix", "cfg.qp": 35})
    return L


def make_seed_inputs(name, tus):
    """tus: list of byte strings (temporal units, low-overhead format) -> {filename: input bytes}"""
    out = {}
    parsed = []
    for tu in tus:
        obus, used = split_obus(tu)
        if used != len(tu):
            return out
        parsed.append(obus)
    ctl16 = CTL_16BIT if "p16" in name else 0
    few = tus[:6]
    out["s-%s.whole" % name] = build_input(ctl16, [b"".join(few)])
    out["s-%s.multi" % name] = build_input(ctl16 | CTL_MULTI, few)
    out["s-%s.axb" % name] = build_input(ctl16 | CTL_MULTI | CTL_ANNEXB, [ser_annexb(o) for o in parsed[:6]])
    out["s-%s.tu0" % name] = build_input(ctl16, [tus[0]])
    return out


def build_seeds(outdir):
    here = os.path.dirname(os.path.abspath(__file__))
    sys.path.insert(0, os.path.join(os.path.dirname(here), "lib"))
    from vf import core, enc
    os.makedirs(outdir, exist_ok=True)
    scratch = os.path.join(core.OUT, "c10-seeds-%d" % os.getpid())
    os.makedirs(scratch, exist_ok=True)
    cases = seed_cases()

    def one(nc):
        name, case = nc
        prefix = os.path.join(scratch, name)
        res = enc.run_case("plain", case, prefix)
        if res.timed_out or enc.crashed(res) or not os.path.exists(prefix + ".ivf"):
            return name, None, "encode failed rc=%s %s" % (res.rc, (res.res or {}).get("errmsg", ""))
        tus = [d for _, d in enc.read_ivf(prefix + ".ivf")]
        enc.cleanup(prefix)
        return name, tus, ""

    n = 0
    for name, tus, why in core.pmap(one, cases, workers=6):
        if not tus:
            print("seed %s skipped: %s" % (name, why))
            continue
        for fn, b in make_seed_inputs(name, tus).items():
            # whole/multi variants of long streams are big: keep the corpus small
            if len(b) > 40000:
                continue
            open(os.path.join(outdir, fn), "wb").write(b)
            n += 1
    # hand-made tiny seeds
    tiny = {
        "s-empty": b"",
        "s-ctl-only": b"\x00",
        "s-td-only": build_input(0, [Obu(OBU_TD, None, b"").ser(True)]),
        "s-td-only.axb": build_input(CTL_ANNEXB, [ser_annexb([Obu(OBU_TD, None, b"")])]),
        "s-zeros": build_input(0, [b"\x00" * 16]),
        "s-ff": build_input(0, [b"\xff" * 16]),
    }
    for fn, b in tiny.items():
        open(os.path.join(outdir, fn), "wb").write(b)
        n += 1
    try:
        os.rmdir(scratch)
    except OSError:
        pass
    print("wrote %d seed inputs to %s" % (n, outdir))


def show(path):
    inp = open(path, "rb").read()
    ctl, calls = parse_input(inp)
    print("ctl=0x%02x annexb=%d 16bit=%d multi=%d nofg=%d op=%d poll=%d calls=%d size=%d" % (
        ctl, ctl & 1, ctl >> 1 & 1, ctl >> 2 & 1, ctl >> 3 & 1, ctl >> 4 & 3, ctl >> 6 & 1, len(calls), len(inp)))
    for i, c in enumerate(calls):
        o = call_obus(ctl, c)
        if o is None:
            part, used = ([], 0) if ctl & CTL_ANNEXB else split_obus(c)
            print(" call %d: %d bytes, does not parse fully (%d OBUs, %d bytes ok) head=%s" % (
                i, len(c), len(part), used, bytes(c[:24]).hex()))
            o = part
        else:
            print(" call %d: %d bytes" % (i, len(c)))
        for ob in o:
            print("   obu type=%d ext=%s payload=%d %s" % (ob.type, ob.ext, len(ob.payload), ob.payload[:16].hex()))


if __name__ == "__main__":
    a = sys.argv[1:]
    if a and a[0] == "seeds":
        build_seeds(a[1])
    elif a and a[0] == "pack":
        seeds = load_seeds(a[1])
        sd, lo, hi = int(a[2]), int(a[3]), int(a[4])
        write_pack(a[5], [mutant(sd, i, seeds)[0] for i in range(lo, hi)])
    elif a and a[0] == "show":
        show(a[1])
    else:
        print(__doc__)
        sys.exit(2)
